------------------------------------- MODULE WireConn -------------------------------------
(* The lock-step socket protocol of vgi-rpc (pipe / subprocess / unix / tcp): one client and one server
   process connected by two FIFO byte channels, modelled at the granularity of Arrow-IPC framing items.
   Follows vgi_rpc/rpc/_server.py (serve / serve_one / _serve_unary / _serve_stream) and
   vgi_rpc/rpc/_client.py (_RpcProxy callers, StreamSession.tick/exchange/close/cancel/__iter__).

   c2s items:  [t:"req", m, cid]        a complete request stream (schema + 1 row + EOS)
               [t:"is"]                 input-stream schema      [t:"in"]  tick / exchange input batch
               [t:"inb"]                input batch of a schema the method does not take (first batch of the stream)
               [t:"cx"]                 cancel batch             [t:"ie"]  input-stream EOS
   s2c items:  [t:"S", k, cid, logs]    a complete stream: k = "result" | "err" | "hdr"; logs = #log batches in it
               [t:"os", cid]            output-stream schema     [t:"d", cid, i]  data batch number i
               [t:"l", cid]             log batch                [t:"oe", cid]    error batch
               [t:"oz", cid]            output-stream EOS
   cid is a ghost: the call an item was produced for (0 = produced for no call).

   The client runs a fixed *script* (chosen in Init): a sequence of calls, each [m, ops] with ops the client
   operations on the stream session:  "t" tick/exchange, "c" close, "x" cancel, "i" iterate to the end,
   "b" exchange() with a batch whose schema is not the stream's input schema (exchange streams only),
   for unary calls ops = <<>> or <<"L">> (the client's log callback raises).  Ops left over when the session has
   ended (by close/cancel, or by itself: stop / error) are applied to the ended session (CPost).  After the script a probe
   unary call is made.  obs is the client-observable history; it is a function of the script (lock-step).

   World flag VerMismatch: the server declares a protocol version the client does not match, so every call
   is refused before dispatch.
   Design switches (TRUE = intended = the code after the fix commits; FALSE reproduces the code as found):
     FixStray   the serve loop swallows the input stream of a stream call it rejected before the stream opened
     FixInitChk non-Stream / missing declared header are reported as init errors instead of killing the loop
     FixDrain   close()/cancel() drain through an error batch; a raising log callback still drains
     FixBadValue a result / header value its declared type cannot hold is reported as the method's error (as found:
                the serialization error escaped the serve loop: the client saw the connection end and the next call hung)
     FixBadIn   exchange() refuses a batch of another schema on an open input stream locally and closes the stream
                in step (as found: the IPC writer's error was taken for a broken transport, the stream was left open
                and the next request was read by the server as stream input)                                   *)
EXTENDS Naturals, Sequences, FiniteSets, TLC

CONSTANTS MaxCalls, MaxTicks, VerMismatch, FixStray, FixInitChk, FixDrain, FixBadIn, FixBadValue,
          LogsBeforeRaise    \* are logs emitted by a process() step that then raises delivered before the error? (C08)

\* ------------------------------------------------------------------------------------------ service
\* k: "unary" | "prod" | "exch";  known: does the server have it;  init: "ok"|"raise"|"nonstream"|"hdrnone"|"hdrbad"
\* steps: behaviour of successive process() calls ("emit","emitfin","fin","raise","lograise","logemit","bademit");
\*        past the end: producers "fin", exchanges "emit".   u: unary behaviour "ok"|"raise"|"logok"|"lograise"
\* badp: the client sends parameters the server's schema rejects
M(n, k, hdr, init, steps, u) == [n |-> n, k |-> k, hdr |-> hdr, init |-> init, steps |-> steps, u |-> u,
                                 known |-> TRUE, badp |-> FALSE]
Methods == {
  M("u_ok", "unary", FALSE, "ok", <<>>, "ok"),      M("u_err", "unary", FALSE, "ok", <<>>, "raise"),
  M("u_log", "unary", FALSE, "ok", <<>>, "logok"),  M("u_logerr", "unary", FALSE, "ok", <<>>, "lograise"),
  M("u_badres", "unary", FALSE, "ok", <<>>, "badresult"),   \* returns a value its declared result type cannot hold (2^63)
  [M("u_badp", "unary", FALSE, "ok", <<>>, "ok") EXCEPT !.badp = TRUE],
  [M("zz_u", "unary", FALSE, "ok", <<>>, "ok") EXCEPT !.known = FALSE],
  M("__describe__", "unary", FALSE, "ok", <<>>, "ok"),      \* built-in introspection: answered even under a version mismatch
  M("p2", "prod", FALSE, "ok", <<"emit", "emit", "fin">>, "ok"),
  M("p_ef", "prod", FALSE, "ok", <<"emit", "emitfin">>, "ok"),
  M("p_0", "prod", FALSE, "ok", <<"fin">>, "ok"),
  M("p_err", "prod", FALSE, "ok", <<"emit", "raise">>, "ok"),
  M("p_err0", "prod", FALSE, "ok", <<"raise">>, "ok"),
  M("p_lograise", "prod", FALSE, "ok", <<"logemit", "lograise">>, "ok"),
  M("p_log2", "prod", FALSE, "ok", <<"log2emit", "fin">>, "ok"),
  M("p_initerr", "prod", FALSE, "raise", <<>>, "ok"),
  M("p_nonstream", "prod", FALSE, "nonstream", <<>>, "ok"),
  [M("p_badp", "prod", FALSE, "ok", <<"emit", "fin">>, "ok") EXCEPT !.badp = TRUE],
  [M("zz_p", "prod", FALSE, "ok", <<>>, "ok") EXCEPT !.known = FALSE],
  M("ph2", "prod", TRUE, "ok", <<"emit", "fin">>, "ok"),
  M("ph_initerr", "prod", TRUE, "raise", <<>>, "ok"),
  M("ph_none", "prod", TRUE, "hdrnone", <<>>, "ok"),
  M("ph_badhdr", "prod", TRUE, "hdrbad", <<>>, "ok"),       \* header holds a value its declared type cannot hold
  M("p_bademit", "prod", FALSE, "ok", <<"emit", "bademit">>, "ok"),   \* a step emits a value the output schema cannot hold
  [M("ph_badp", "prod", TRUE, "ok", <<"emit", "fin">>, "ok") EXCEPT !.badp = TRUE],
  [M("zz_ph", "prod", TRUE, "ok", <<>>, "ok") EXCEPT !.known = FALSE],
  M("x_ok", "exch", FALSE, "ok", <<>>, "ok"),
  M("x_err", "exch", FALSE, "ok", <<"emit", "raise">>, "ok"),
  M("xh", "exch", TRUE, "ok", <<>>, "ok"),
  M("x_initerr", "exch", FALSE, "raise", <<>>, "ok") }
Meth(n) == CHOOSE m \in Methods : m.n = n
Probe == "u_ok"

\* client operation sequences worth distinguishing per method kind
RECURSIVE Ticks(_)
Ticks(k) == IF k = 0 THEN <<>> ELSE <<"t">> \o Ticks(k - 1)
OpsFor(m) == IF m.k = "unary" THEN (IF m.u \in {"logok", "lograise"} THEN {<<>>, <<"L">>} ELSE {<<>>})
             ELSE {Ticks(k) \o <<e>> : k \in 0..MaxTicks, e \in {"c", "x"}}
                  \cup (IF m.k = "prod" THEN {<<"i">>, <<"t", "i">>} ELSE {})
                  \* operations on a session that has already ended: close()/cancel() again (idempotent, nothing may
                  \* reach the wire), tick()/exchange() on a closed session (refused locally)
                  \cup {Ticks(k) \o <<e, e2>> : k \in 0..1, e \in {"c", "x"}, e2 \in {"c", "x", "t"}}
                  \cup (IF m.k = "exch" THEN {<<"b", "c">>, <<"t", "b", "c">>, <<"t", "b", "t", "c">>} ELSE {})
                  \* "L" first: the client's log callback raises on every log batch it is handed (also while draining)
                  \cup (IF \E j \in 1..Len(m.steps) : m.steps[j] \in {"logemit", "log2emit", "lograise"}
                        THEN {<<"L", "t", "c">>, <<"L", "t", "x">>} ELSE {})
CallDescs == UNION {{[m |-> mm.n, ops |-> o] : o \in OpsFor(mm)} : mm \in Methods}
RECURSIVE SeqsUpTo(_, _)
SeqsUpTo(S, n) == IF n = 0 THEN {<<>>} ELSE LET p == SeqsUpTo(S, n - 1) IN p \cup {Append(s, x) : s \in p, x \in S}
Scripts == SeqsUpTo(CallDescs, MaxCalls) \ {<<>>}

VARIABLES c2s, s2c, srv, cli, script, obs, badResp, broken
vars == <<c2s, s2c, srv, cli, script, obs, badResp, broken>>

Init == /\ c2s = <<>> /\ s2c = <<>>
        /\ srv = [pc |-> "idle", m |-> Probe, cid |-> 0, k |-> 0, stray |-> FALSE, ndata |-> 0]
        /\ cli = [pc |-> "idle", ip |-> 0, op |-> 0, cid |-> 0, inOpen |-> FALSE, outOpen |-> FALSE, closed |-> FALSE,
                  how |-> "none", logx |-> FALSE]
        /\ script \in Scripts
        /\ obs = <<>> /\ badResp = FALSE /\ broken = FALSE

NCalls == Len(script) + 1                       \* + the probe
Call(i) == IF i <= Len(script) THEN script[i] ELSE [m |-> Probe, ops |-> <<>>]
CurM == Meth(Call(cli.ip).m)
Ops == Call(cli.ip).ops
Obs(x) == obs' = Append(obs, x)
Own(item) == badResp' = (badResp \/ item.cid # cli.cid)

\* ========================================================================================== client
\* ---- start the next call: write the request stream
PostPending == cli.pc = "idle" /\ cli.ip >= 1 /\ cli.ip <= Len(script) /\ CurM.k # "unary" /\ cli.op < Len(Ops)
CStart ==
  /\ cli.pc = "idle" /\ cli.ip < NCalls /\ ~PostPending
  /\ LET i == cli.ip + 1  m == Meth(Call(i).m) IN
     /\ c2s' = Append(c2s, [t |-> "req", m |-> m.n, cid |-> i])
     /\ Obs(<<"call">>)                  \* history marker: a new call starts (lets histories be compared call by call)
     /\ cli' = [cli EXCEPT !.ip = i, !.cid = i, !.inOpen = FALSE, !.outOpen = FALSE, !.closed = FALSE,
                           !.how = "none", !.logx = (Call(i).ops # <<>> /\ Call(i).ops[1] = "L"),
                           !.op = IF Call(i).ops # <<>> /\ Call(i).ops[1] = "L" THEN 1 ELSE 0,
                           !.pc = IF m.k = "unary" THEN "rd_unary" ELSE IF m.hdr THEN "rd_hdr" ELSE "sess"]
  /\ UNCHANGED <<s2c, srv, script, badResp, broken>>

\* ---- unary response: exactly one complete stream; anything else is garbage on the wire
CReadUnary ==
  /\ cli.pc = "rd_unary" /\ s2c # <<>>
  /\ LET x == Head(s2c) IN
     /\ s2c' = Tail(s2c)
     /\ IF x.t = "S"
        THEN /\ Own(x) /\ UNCHANGED broken
             /\ IF cli.logx /\ x.logs > 0
                THEN \* the log callback raises at the first log batch; the rest of the stream must still be consumed
                     /\ Obs(<<"callback_raised">>)
                     /\ cli' = [cli EXCEPT !.pc = IF FixDrain THEN "idle" ELSE "leak"]
                ELSE /\ Obs(<<x.k, x.logs>>) /\ cli' = [cli EXCEPT !.pc = "idle"]
        ELSE /\ broken' = TRUE /\ Obs(<<"transport_error">>) /\ cli' = [cli EXCEPT !.pc = "idle"] /\ UNCHANGED badResp
  /\ UNCHANGED <<c2s, srv, script>>
\* (code as found) the unread rest of the response stays on the wire: model it as a stale item pushed back
CLeak == /\ cli.pc = "leak"
         /\ s2c' = <<[t |-> "oz", cid |-> cli.cid]>> \o s2c
         /\ cli' = [cli EXCEPT !.pc = "idle"]
         /\ UNCHANGED <<c2s, srv, script, obs, badResp, broken>>

\* ---- header stream (or an error stream in its place)
CReadHeader ==
  /\ cli.pc = "rd_hdr" /\ s2c # <<>>
  /\ LET x == Head(s2c) IN
     /\ s2c' = Tail(s2c)
     /\ IF x.t = "S"
        THEN /\ Own(x) /\ UNCHANGED broken
             /\ Obs(<<x.k, x.logs>>)
             /\ cli' = [cli EXCEPT !.pc = IF x.k = "hdr" THEN "sess" ELSE "idle",
                                   !.op = IF x.k = "hdr" THEN @ ELSE Len(Ops)]       \* no session object: leftover ops moot
        ELSE /\ broken' = TRUE /\ Obs(<<"transport_error">>) /\ cli' = [cli EXCEPT !.pc = "idle", !.op = Len(Ops)]
             /\ UNCHANGED badResp
  /\ UNCHANGED <<c2s, srv, script>>

\* ---- operations on a session that has ended: close()/cancel() are no-ops, tick()/exchange()/iteration are refused
\*      locally; nothing is written to or read from the connection
CPost ==
  /\ PostPending
  /\ cli' = [cli EXCEPT !.op = @ + 1]
  /\ IF Ops[cli.op + 1] \in {"t", "i", "b"} /\ ~(Ops[cli.op + 1] = "i" /\ cli.how = "i")     \* (the iteration that just ended)
     THEN Obs(<<"closed_error">>) ELSE UNCHANGED obs
  /\ UNCHANGED <<c2s, s2c, srv, script, badResp, broken>>

\* ---- session operations, taken from the script
NextOp == IF cli.op < Len(Ops) THEN Ops[cli.op + 1] ELSE "c"        \* scripts always end by leaving through close()
OpenIn == IF cli.inOpen THEN <<>> ELSE <<[t |-> "is"]>>
CTick ==
  /\ cli.pc = "sess" /\ ~cli.closed /\ NextOp \in {"t", "i"}
  /\ c2s' = c2s \o OpenIn \o <<[t |-> "in"]>>
  /\ cli' = [cli EXCEPT !.inOpen = TRUE, !.pc = "rd_out", !.how = NextOp, !.op = IF NextOp = "t" THEN @ + 1 ELSE @]
  /\ UNCHANGED <<s2c, srv, script, obs, badResp, broken>>
\* the session ended on the client side by itself (stop / error): close() = EOS + drain
EndSession(c) == [c EXCEPT !.closed = TRUE, !.pc = "drain"]
CloseWrite == c2s' = c2s \o <<[t |-> "ie"]>>
\* exchange() with a batch of another schema.  Input stream not open yet: it is opened with that schema and the
\* server refuses the batch.  Already open: refused locally, the stream is closed in step (EOS + drain).
CBadIn ==
  /\ cli.pc = "sess" /\ ~cli.closed /\ NextOp = "b"
  /\ IF ~cli.inOpen
     THEN /\ c2s' = c2s \o <<[t |-> "is"], [t |-> "inb"]>>
          /\ cli' = [cli EXCEPT !.inOpen = TRUE, !.pc = "rd_out", !.how = "b", !.op = @ + 1]
          /\ UNCHANGED <<obs, broken>>
     ELSE IF FixBadIn
     THEN /\ Obs(<<"err", 0>>) /\ CloseWrite /\ cli' = [EndSession(cli) EXCEPT !.op = @ + 1, !.how = "b"] /\ UNCHANGED broken
     ELSE \* as found: reported as a transport failure, session marked closed, nothing written, input stream left open
          /\ Obs(<<"transport_error">>) /\ UNCHANGED <<c2s, broken>>
          /\ cli' = [cli EXCEPT !.closed = TRUE, !.pc = "idle", !.op = @ + 1, !.how = "b"]
  /\ UNCHANGED <<s2c, srv, script, badResp>>
\* close(): EOS on the input stream (an empty stream if it was never opened), then drain the output
CClose ==
  /\ cli.pc = "sess" /\ ~cli.closed /\ NextOp = "c"
  /\ c2s' = c2s \o OpenIn \o <<[t |-> "ie"]>>
  /\ cli' = [cli EXCEPT !.inOpen = TRUE, !.closed = TRUE, !.pc = "drain", !.how = "close", !.op = @ + 1]
  /\ UNCHANGED <<s2c, srv, script, obs, badResp, broken>>
CCancel ==
  /\ cli.pc = "sess" /\ ~cli.closed /\ NextOp = "x"
  /\ c2s' = c2s \o OpenIn \o <<[t |-> "cx"], [t |-> "ie"]>>
  /\ cli' = [cli EXCEPT !.inOpen = TRUE, !.closed = TRUE, !.pc = "drain", !.how = "cancel", !.op = @ + 1]
  /\ UNCHANGED <<s2c, srv, script, obs, badResp, broken>>


\* ---- reading the output stream after a tick / exchange
CReadOut ==
  /\ cli.pc = "rd_out" /\ s2c # <<>>
  /\ LET x == Head(s2c) IN
     /\ s2c' = Tail(s2c)
     /\ IF ~cli.outOpen
        THEN IF x.t = "os"
             THEN /\ Own(x) /\ cli' = [cli EXCEPT !.outOpen = TRUE] /\ UNCHANGED <<c2s, obs, broken>>
             ELSE IF x.t = "S"     \* a complete error stream where the output stream was expected (call rejected)
             THEN /\ Own(x) /\ Obs(<<x.k, x.logs>>) /\ CloseWrite
                  /\ cli' = [cli EXCEPT !.closed = TRUE, !.outOpen = TRUE, !.pc = "idle"]   \* reader already at its EOS
                  /\ UNCHANGED broken
             ELSE /\ broken' = TRUE /\ Obs(<<"transport_error">>) /\ cli' = [cli EXCEPT !.closed = TRUE, !.pc = "idle"]
                  /\ UNCHANGED <<c2s, badResp>>
        ELSE CASE x.t = "l"  -> /\ Own(x) /\ UNCHANGED <<c2s, broken>>
                                /\ IF cli.logx   \* tick()/exchange() lets the callback's exception escape; the session stays open,
                                               \* the rest of this turn's output is still on the wire; the script goes to its exit op
                                   THEN Obs(<<"callback_raised">>) /\ cli' = [cli EXCEPT !.pc = "sess", !.op = Len(Ops) - 1]
                                   ELSE Obs(<<"log">>) /\ UNCHANGED cli
               [] x.t = "d"  -> /\ Own(x) /\ Obs(<<"data", x.i>>) /\ UNCHANGED <<c2s, broken>>
                                /\ cli' = [cli EXCEPT !.pc = "sess"]
               [] x.t = "oe" -> Own(x) /\ Obs(<<"err", 0>>) /\ CloseWrite /\ cli' = EndSession(cli) /\ UNCHANGED broken
               [] x.t = "oz" -> /\ Own(x) /\ Obs(<<"stop">>) /\ CloseWrite /\ UNCHANGED broken
                                /\ cli' = [cli EXCEPT !.closed = TRUE, !.pc = "idle"]
               [] OTHER      -> /\ broken' = TRUE /\ Obs(<<"transport_error">>) /\ UNCHANGED <<c2s, badResp>>
                                /\ cli' = [cli EXCEPT !.closed = TRUE, !.pc = "idle"]
  /\ UNCHANGED <<srv, script>>

\* ---- draining the output stream (close / cancel / after an error): nothing is reported to the caller
CDrain ==
  /\ cli.pc = "drain" /\ s2c # <<>>
  /\ LET x == Head(s2c) IN
     /\ s2c' = Tail(s2c)
     /\ IF ~cli.outOpen
        THEN IF x.t = "os" THEN Own(x) /\ cli' = [cli EXCEPT !.outOpen = TRUE] /\ UNCHANGED broken
             ELSE IF x.t = "S"
                  THEN /\ Own(x) /\ UNCHANGED broken
                       /\ cli' = [cli EXCEPT !.pc = IF FixDrain \/ x.k # "err" THEN "idle" ELSE "leak"]
                  ELSE broken' = TRUE /\ cli' = [cli EXCEPT !.pc = "idle"] /\ UNCHANGED badResp
        ELSE CASE x.t \in {"l", "d"} -> /\ Own(x) /\ UNCHANGED broken
                                         /\ IF x.t = "l" /\ cli.logx /\ ~FixDrain
                                            THEN cli' = [cli EXCEPT !.pc = "idle"]      \* the callback's exception escapes close()
                                            ELSE UNCHANGED cli
               [] x.t = "oe" -> Own(x) /\ UNCHANGED broken /\ cli' = [cli EXCEPT !.pc = IF FixDrain THEN "drain" ELSE "idle"]
               [] x.t = "oz" -> Own(x) /\ UNCHANGED broken /\ cli' = [cli EXCEPT !.pc = "idle"]
               [] OTHER      -> broken' = TRUE /\ cli' = [cli EXCEPT !.pc = "idle"] /\ UNCHANGED badResp
  /\ UNCHANGED <<c2s, srv, script, obs>>

Client == CStart \/ CReadUnary \/ CLeak \/ CReadHeader \/ CPost \/ CTick \/ CBadIn \/ CClose \/ CCancel \/ CReadOut \/ CDrain

\* ========================================================================================== server
Push(x) == s2c' = Append(s2c, x)
Rejected(m) == (~m.known) \/ (VerMismatch /\ m.n # "__describe__") \/ m.badp
\* may the client still send an input stream for a call that was rejected before its stream opened?
StrayAfter(m) == IF ~m.known THEN TRUE ELSE (m.k # "unary" /\ ~m.hdr)
StepOf(m, k) == IF k <= Len(m.steps) THEN m.steps[k] ELSE IF m.k = "prod" THEN "fin" ELSE "emit"

SReadRequest ==
  /\ srv.pc = "idle" /\ c2s # <<>> /\ Head(c2s).t = "req"
  /\ LET x == Head(c2s)  m == Meth(x.m) IN
     /\ c2s' = Tail(c2s)
     /\ IF Rejected(m)
        THEN /\ Push([t |-> "S", k |-> "err", cid |-> x.cid, logs |-> 0])
             /\ srv' = [srv EXCEPT !.stray = (FixStray /\ StrayAfter(m))]
        ELSE IF m.k = "unary" /\ m.u = "badresult" /\ ~FixBadValue
        THEN /\ UNCHANGED s2c /\ srv' = [srv EXCEPT !.pc = "dead"]       \* serialization error escapes the serve loop
        ELSE IF m.k = "unary"
        THEN /\ Push([t |-> "S", k |-> IF m.u \in {"raise", "lograise", "badresult"} THEN "err" ELSE "result", cid |-> x.cid,
                      logs |-> IF m.u \in {"logok", "lograise"} THEN 2 ELSE 0])
             /\ srv' = [srv EXCEPT !.stray = FALSE]
        ELSE IF m.init = "raise" \/ (FixInitChk /\ m.init \in {"nonstream", "hdrnone"}) \/ (FixBadValue /\ m.init = "hdrbad")
        THEN /\ Push([t |-> "S", k |-> "err", cid |-> x.cid, logs |-> 0])
             /\ srv' = [srv EXCEPT !.stray = (FixStray /\ ~m.hdr)]
        ELSE IF m.init \in {"nonstream", "hdrnone", "hdrbad"}
        THEN /\ UNCHANGED s2c /\ srv' = [srv EXCEPT !.pc = "dead"]       \* exception escapes the serve loop
        ELSE /\ IF m.hdr THEN Push([t |-> "S", k |-> "hdr", cid |-> x.cid, logs |-> 0]) ELSE UNCHANGED s2c
             /\ srv' = [srv EXCEPT !.pc = "open_in", !.m = m.n, !.cid = x.cid, !.k = 0, !.stray = FALSE, !.ndata = 0]
  /\ UNCHANGED <<cli, script, obs, badResp, broken>>

\* a stream that is not a request arrives where a request is expected
SReadStray ==
  /\ srv.pc = "idle" /\ c2s # <<>> /\ Head(c2s).t = "is"
  /\ c2s' = Tail(c2s)
  /\ srv' = [srv EXCEPT !.pc = IF srv.stray THEN "swallow" ELSE "stray", !.stray = FALSE, !.k = 0]
  /\ UNCHANGED <<s2c, cli, script, obs, badResp, broken>>
SSwallow == /\ srv.pc = "swallow" /\ c2s # <<>>
            /\ c2s' = Tail(c2s)
            /\ srv' = [srv EXCEPT !.pc = IF Head(c2s).t = "ie" THEN "idle" ELSE "swallow"]
            /\ UNCHANGED <<s2c, cli, script, obs, badResp, broken>>
\* code as found: first batch read as a request, rest drained, answered with "missing vgi_rpc.method" (answers no call);
\* an empty stream (no batch) ends the serve loop
SStray == /\ srv.pc = "stray" /\ c2s # <<>>
          /\ c2s' = Tail(c2s)
          /\ IF Head(c2s).t = "ie"
             THEN IF srv.k = 0 THEN srv' = [srv EXCEPT !.pc = "dead"] /\ UNCHANGED s2c
                  ELSE srv' = [srv EXCEPT !.pc = "idle"] /\ Push([t |-> "S", k |-> "err", cid |-> 0, logs |-> 0])
             ELSE srv' = [srv EXCEPT !.k = 1] /\ UNCHANGED s2c
          /\ UNCHANGED <<cli, script, obs, badResp, broken>>

SOpenIn == /\ srv.pc = "open_in" /\ c2s # <<>> /\ Head(c2s).t = "is"
           /\ c2s' = Tail(c2s) /\ Push([t |-> "os", cid |-> srv.cid])
           /\ srv' = [srv EXCEPT !.pc = "loop"]
           /\ UNCHANGED <<cli, script, obs, badResp, broken>>
\* anything but an input stream here (e.g. the next request after an abandoned session) is outside the lock-step contract
SLoop ==
  /\ srv.pc = "loop" /\ c2s # <<>>
  /\ LET x == Head(c2s)  m == Meth(srv.m)  c == srv.cid IN
     /\ c2s' = Tail(c2s)
     /\ CASE x.t = "in" ->
               LET st == StepOf(m, srv.k + 1)
                   D == [t |-> "d", cid |-> c, i |-> srv.ndata + 1]
                   L == [t |-> "l", cid |-> c]  E == [t |-> "oe", cid |-> c]  Z == [t |-> "oz", cid |-> c] IN
              (CASE st = "emit"     -> s2c' = s2c \o <<D>> /\ srv' = [srv EXCEPT !.k = @ + 1, !.ndata = @ + 1]
                 [] st = "logemit"  -> s2c' = s2c \o <<L, D>> /\ srv' = [srv EXCEPT !.k = @ + 1, !.ndata = @ + 1]
                 [] st = "log2emit" -> s2c' = s2c \o <<L, L, D>> /\ srv' = [srv EXCEPT !.k = @ + 1, !.ndata = @ + 1]
                 [] st = "emitfin"  -> s2c' = s2c \o <<D, Z>> /\ srv' = [srv EXCEPT !.pc = "drain_in", !.ndata = @ + 1]
                 [] st = "fin"      -> s2c' = s2c \o <<Z>> /\ srv' = [srv EXCEPT !.pc = "drain_in"]
                 [] st \in {"raise", "bademit"} -> s2c' = s2c \o <<E, Z>> /\ srv' = [srv EXCEPT !.pc = "drain_in"]
                 [] st = "lograise" -> /\ s2c' = s2c \o (IF LogsBeforeRaise THEN <<L>> ELSE <<>>) \o <<E, Z>>
                                       /\ srv' = [srv EXCEPT !.pc = "drain_in"])
          [] x.t = "inb" -> /\ s2c' = s2c \o <<[t |-> "oe", cid |-> c], [t |-> "oz", cid |-> c]>>      \* input schema mismatch
                            /\ srv' = [srv EXCEPT !.pc = "drain_in"]
          [] x.t = "cx" -> s2c' = s2c \o <<[t |-> "oz", cid |-> c]>> /\ srv' = [srv EXCEPT !.pc = "drain_in"]
          [] x.t = "ie" -> s2c' = s2c \o <<[t |-> "oz", cid |-> c]>> /\ srv' = [srv EXCEPT !.pc = "idle"]
          [] OTHER -> UNCHANGED s2c /\ srv' = [srv EXCEPT !.pc = "dead"]
  /\ UNCHANGED <<cli, script, obs, badResp, broken>>
SDrainIn == /\ srv.pc = "drain_in" /\ c2s # <<>>
            /\ c2s' = Tail(c2s)
            /\ srv' = [srv EXCEPT !.pc = IF Head(c2s).t = "ie" THEN "idle" ELSE "drain_in"]
            /\ UNCHANGED <<s2c, cli, script, obs, badResp, broken>>
Server == SReadRequest \/ SReadStray \/ SSwallow \/ SStray \/ SOpenIn \/ SLoop \/ SDrainIn

Next == Client \/ Server
Spec == Init /\ [][Next]_vars

\* ========================================================================================== properties (C04)
ClientDone == cli.pc = "idle" /\ cli.ip = NCalls
OwnResponse == ~badResp                       \* every item a call consumed was produced for that call
NotBroken == ~broken                          \* the client never finds garbage where a stream must start
ServerAlive == srv.pc # "dead"
ClientWaiting == cli.pc \in {"rd_unary", "rd_hdr", "rd_out", "drain"}
ServerStuck == \/ srv.pc = "dead" \/ c2s = <<>>
               \/ (srv.pc = "idle" /\ c2s # <<>> /\ Head(c2s).t \notin {"req", "is"})
               \/ (srv.pc = "open_in" /\ c2s # <<>> /\ Head(c2s).t # "is")
NoOrphanWait == ~(ClientWaiting /\ s2c = <<>> /\ ServerStuck)       \* nobody waits for bytes that will never be written
Boundary == (ClientDone /\ c2s = <<>> /\ srv.pc = "idle") => s2c = <<>>
ProbeAnswered == ClientDone => (obs[Len(obs)] = <<(IF VerMismatch THEN "err" ELSE "result"), 0>>)
Terminal == ClientDone /\ ~ENABLED Server
==========================================================================================
