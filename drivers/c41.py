"""C41 -- concurrent socket connections are isolated.

spec/conc/ConnIso.tla         accept loop + per-connection threads + semaphore + lock-step serve loops + clients, one
                              action = one scheduler step of one real thread; the clauses
spec/conc/ConnIsoTrace.tla    recorded real executions must be behaviours of ConnIso (drift detector)
spec/conc/ConnIsoMonitor.tla  the clauses over the observable history (decides VIOLATION)
"""
import json

from drivers import _wire4_conn as W
from vf import table, tracecheck
from vf.core import Ctx
from vf.graph import dump_graph
from vf.tlc import MachineryError, render_cfg, require_ok, run_tlc, sany

META = {
    "engine": "conc",
    "text": "TLC model-checks ConnIso.tla: 2-3 connections with per-connection call scripts (unary, producer and "
            "exchange streams, header-less stream calls rejected by init followed by their stray input stream and a "
            "further call, empty) served by the accept loop / per-connection threads / semaphore of "
            "_serve_socket_threaded with max_connections in {None, 1, 2}, every interleaving at park-point "
            "granularity (accept, state lock, semaphore, blocking receive, method body), against ConcLimit (served "
            "at once <= max_connections), IsoHistory (each connection's history is a prefix of its solo history), "
            "NoStarvation (a connection beyond the limit is served later, nothing is stuck or dropped).  "
            "Interleavings from TLC's state graph (edge cover in quick, more paths in thorough) are forced step by "
            "step onto the real serve_unix(threaded=True, max_connections=..) -> _serve_socket_threaded + real RpcServer + real AF_UNIX sockets + real "
            "RpcConnection clients by the deterministic scheduler; every execution's step trace is validated by TLC "
            "against ConnIsoTrace.tla and its observable history (serve begin/end, dispatches, per-connection "
            "results vs a real solo run) is judged by TLC with ConnIsoMonitor.tla.",
    "note": "Trusted: the cooperative scheduler (one thread runs between park points); park points are the threading "
            "primitives of vgi_rpc.rpc._transport (shim namespace: Thread, Lock, Semaphore), blocking accept()/recv() "
            "of the real sockets (socket.socket subclasses that park instead of blocking, enabled iff select() "
            "reports readable) and the service's method bodies; 'being served' is bracketed by the construction and "
            "close() of the transport handed to RpcServer.serve (a UnixTransport subclass passed as "
            "transport_factory); the TCP variant shares _serve_socket_threaded and is not run separately; data "
            "races between park points are out of reach.",
    "technique": "TLC exhaustive interleaving exploration of a park-point-granular TLA+ model; TLC-generated schedules "
                 "forced on real threads/sockets by a deterministic scheduler; TLC trace validation + TLC-evaluated monitor",
}

INVS = ["ConcLimit", "IsoHistory", "NoStarvation", "Finished", "PermitsSane", "NoLeftover"]
P, X = ["pt", "t", "c"], ["xe", "e", "c"]
# pr / xr: a header-less stream call rejected by init; its session's first t / e / c is a stray input stream, then a further call
W2_STRAY = [[["pr", "t", "u"], ["u"]], [["xr", "c", "u"], ["u", "u"]], [["pr", "t", "u"], []], [["xr", "e", "u"], ["pr", "c", "u"]]]
W2_BASE = [[P, P], [X, X], [P, X], [["u"], ["u", "u"]], [["u", "pt", "c"], ["xe", "c"]], [[], ["u"]]]
W2_QUICK = [[P, X], [["u"], ["u", "u"]], [[], ["u"]]] + W2_STRAY[:3]
W3_QUICK = [[["u"], ["u"], []]]
# g: the connection ends abnormally (RpcServer.serve raises out of the per-connection thread)
W2_ABEND = [[["g"], ["u"]], [["u", "g"], ["pt", "c"]]]
# connections whose client brings its own shared-memory segment (sh = both / only the first)
W2_SHM = [[["u"], ["u"]], [P, X]]
W2_SHM1 = [[["u", "u"], ["pt", "t", "c"]]]
W2_MORE = [[P, P], [X, X], [["u", "pt", "c"], ["xe", "c"]], W2_STRAY[3], [["pr", "c", "pt", "c"], ["xe", "c", "u"]], [["u", "u"], P], [["pt", "t", "t", "c"], ["xe", "e", "e", "c"]], [["u", "xe", "c", "u"], ["pt", "c", "u"]], [[], []],
           [["pt", "c", "pt", "c"], ["pt", "t", "c"]]]
W3_MORE = [[["u"], ["u"], ["u"]], [[], ["pt", "c"], ["u"]], [["pt", "c"], ["pt", "c"], ["xe", "c"]]]


def _tla_seq(xs) -> str:
    return "<<" + ", ".join(f'"{x}"' for x in xs) + ">>"


def _worlds(ws: list, mxs: list, sh=()) -> str:
    recs = []
    for scripts in ws:
        f = "<<" + ", ".join(_tla_seq(s) for s in scripts) + ">>"
        shs = "{" + ", ".join(str(c) for c in sh if c <= len(scripts)) + "}"
        for m in mxs:
            recs.append(f"[s |-> {f}, mx |-> {m}, sh |-> {shs}]")
    return "{" + ", ".join(recs) + "}"


def _wrapper(wd, name: str, base: str, worlds: str) -> dict:
    (wd / f"{name}.tla").write_text(f"---- MODULE {name} ----\nEXTENDS {base}\nWorldsDef == {worlds}\n====\n")
    return {"overrides": {"Worlds": "WorldsDef"}}


def _at(f, c: int):
    """Value of a TLA+ function with domain 1..n (TLC prints it as a sequence) at c."""
    return f[c] if isinstance(f, dict) else f[c - 1]


def _items(f) -> tuple:
    return tuple(sorted(f.items())) if isinstance(f, dict) else tuple(f)


def _enabled(g, node) -> list[str]:
    out = set()
    for lab, _v in g.out.get(node, []):
        if lab == "L":
            out.add("loop")
        elif lab.startswith(("C(", "H(")):
            out.add(lab[0].lower() + lab[2:-1])
    return sorted(out)


def _steps(beh: list[dict], g=None, nodes=None) -> list[tuple]:
    out = []
    lab_l = {"start": "start", "accept": "accept", "done": "EXIT"}
    lab_h = {"fin": "acq", "done": "EXIT"}
    lab_c = {"wait": "io", "done": "EXIT"}
    for b in beh:
        a, st = b["action"], b["state"]
        if a == "L":
            out.append(("L", 0, lab_l.get(st["loop"], "acq")))
        elif a == "C":
            c = int(b["args"][0])
            out.append(("C", c, lab_c.get(_at(st["cl"], c), _at(st["cl"], c))))
        elif a == "H":
            c = int(b["args"][0])
            out.append(("H", c, lab_h.get(_at(st["h"], c), _at(st["h"], c))))
        elif a == "CloseListener":
            out.append(("X", 0, ""))
        else:
            raise MachineryError(f"unlabelled step in the state graph: {a}")
    if g is not None:
        out = [s if s[0] == "X" else s + (_enabled(g, n),) for s, n in zip(out, nodes[1:])]
    return out


def run(ctx: Ctx) -> None:
    wd = ctx.wd.stage("conc")
    for m in ("ConnIso", "ConnIsoTrace", "ConnIsoMonitor"):
        sany(wd, m)
    # ---- (1) the design
    for name, world in (("stream_state", [P, P]), ("stray_mark", W2_STRAY[0]), ("segment_cache", [["u"], ["u"]])):
        kw = _wrapper(wd, f"MC_ConnShared_{name}", "ConnIso", _worlds([world], [0], (1, 2) if name == "segment_cache" else ()))
        bad = run_tlc(wd, f"MC_ConnShared_{name}", render_cfg(constants={"SharedState": True}, invariants=INVS, **kw), workers=4)
        ctx.extra[f"design_with_shared_{name}_violates"] = bad.violated
        ctx.extra[f"design_with_shared_{name}_counterexample"] = [a for a, _ in bad.counterexample]
        if bad.violated != "IsoHistory":
            raise MachineryError(f"the shared-{name} design should violate IsoHistory, TLC says {bad.violated} {bad.error}")
    if not ctx.quick:
        kw = _wrapper(wd, "MC_ConnBig", "ConnIso", "(" + _worlds(W2_QUICK + W2_ABEND + W2_MORE, [0, 1, 2]) + " \\cup "
                      + _worlds(W3_QUICK + W3_MORE, [0, 1, 2]) + " \\cup " + _worlds(W2_SHM + W2_SHM1, [0, 1, 2], (1, 2))
                      + " \\cup " + _worlds(W2_SHM + W2_SHM1, [0, 2], (1,)) + ")")
        r = run_tlc(wd, "MC_ConnBig", render_cfg(constants={"SharedState": False}, invariants=INVS, **kw), workers=8, timeout=1500)
        ctx.add_tlc(f"ConnIso exhaustive: {len(W2_QUICK + W2_ABEND + W2_MORE)} two-connection and {len(W3_QUICK + W3_MORE)} three-connection script sets x max_connections {{None,1,2}}", r)
        require_ok(r, "ConnIso.tla (intended design) must satisfy the C41 clauses")
    gw2 = W2_QUICK + W2_ABEND if ctx.quick else W2_QUICK + W2_ABEND + W2_MORE[:6]
    gw3 = W3_QUICK if ctx.quick else W3_QUICK + W3_MORE[:2]
    kw = _wrapper(wd, "G_Conn", "ConnIso", "(" + _worlds(gw2, [0, 1, 2]) + " \\cup " + _worlds(gw3, [1, 2]) + " \\cup "
                  + _worlds(W2_SHM, [0, 2], (1, 2)) + " \\cup " + _worlds(W2_SHM1, [0, 1], (1,)) + ")")
    gr, g = dump_graph(wd, "G_Conn", render_cfg(constants={"SharedState": False}, invariants=INVS, **kw), name="gconn",
                       workers=8, timeout=1500)
    ctx.add_tlc(f"ConnIso exhaustive + state graph: {len(gw2)} two-connection x {{None,1,2}}, {len(gw3)} three-connection x {{1,2}}", gr)
    require_ok(gr, "ConnIso.tla (intended design) must satisfy the C41 clauses")
    ctx.exhaustive = True
    ctx.extra["graph_states"] = len(g.raw)
    ctx.extra["graph_edges"] = g.n_edges

    # ---- (2) spec -> code: interleavings from the state graph forced on the real threads
    def key(s, lab, d):
        # one class per (acting thread's move, what the other connections' threads are parked at, permits in use)
        if lab.startswith(("C(", "H(")):
            c = int(lab[2:-1])
            f = "cl" if lab[0] == "C" else "h"
            move = (lab[0], _at(s[f], c), _at(d[f], c), _at(s["h" if f == "cl" else "cl"], c))
            others = tuple(sorted((_at(s["cl"], o), _at(s["h"], o)) for o in range(1, len(_items(s["cl"])) + 1) if o != c))
        else:
            move = (lab, s["loop"], d["loop"])
            others = tuple(sorted(zip(_items(s["cl"]), _items(s["h"]))))
        # + the stray marks: "another connection's thread moves between A's rejection and A's stray input" is its own class
        return (move, others, s["mx"], tuple(sorted(s["sh"])), len(s["serving"]), len(s["backlog"]), _items(s["flag"]), _items(s["mid"]))

    def key_stray(s, lab, d):
        # steps of ANOTHER connection's threads while some connection's stray mark is set (= between a rejection and
        # the stray input stream it announces) are covered first and completely; everything else is one class here
        fl = _items(s["flag"])
        marked = [c for c, v in (fl if fl and isinstance(fl[0], tuple) else enumerate(fl)) if v and c > 0]
        if marked and lab.startswith(("C(", "H(")) and int(lab[2:-1]) not in marked:
            return key(s, lab, d)
        # ... and a handler that takes up a request while another connection that brought a segment is inside a method
        shs = set(s["sh"])
        if lab.startswith("H(") and any(_at(s["h"], o) == "m" for o in shs if o != int(lab[2:-1])) \
                and _at(d["h"], int(lab[2:-1])) == "m":
            return key(s, lab, d)
        return "rest"

    # the cover is built world by world (one initial state = one script set x max_connections x own-segment set), so a
    # limited budget is spread over all of them instead of being spent on the first ones in graph order
    inits = list(g.init)
    total = 170 if ctx.quick else 1500

    def special(n):
        s0 = g.state(n)
        return bool(s0["sh"]) or any(op in ("pr", "xr") for sc in _items(s0["script"]) for op in sc)

    paths = []
    sp = [n for n in inits if special(n)]
    for n in sp:
        g.init = [n]
        paths += g.edge_cover_paths(ctx.rng, max_paths=max(2, (total // 3) // max(1, len(sp))), key=key_stray, max_len=200)
    ctx.extra["schedules_covering_steps_inside_a_stray_window"] = len(paths)
    per = max(2, (total - len(paths)) // len(inits))
    for n in inits:
        g.init = [n]
        paths += g.edge_cover_paths(ctx.rng, max_paths=per, key=key, max_len=200)
    g.init = inits
    ctx.extra["worlds"] = len(inits)
    ctx.extra["schedules_from_edge_cover"] = len(paths)
    ctx.extra["edge_classes"] = len({key(g.state(u), lab, g.state(v)) for u, es in g.out.items() for lab, v in es})
    if not ctx.quick:
        paths += g.random_paths(ctx.rng, 500, 200)
    ctx.rule = ("case = one interleaving (sequence of single-thread steps loop / client c / handler c) of 2-3 "
                "connections, taken from a path of TLC's state graph, forced on the real threads and completed to the "
                "end; non-trivial = distinct schedules in which >= 2 connections were accepted")
    runs = []
    solo_cache: dict = {}
    seen = set()
    for pi, (nodes, labs) in enumerate(paths):
        s0 = g.state(nodes[0])
        scripts = {c: list(v) for c, v in sorted(s0["script"].items())} if isinstance(s0["script"], dict) \
            else {i + 1: list(v) for i, v in enumerate(s0["script"])}
        mx = s0["mx"]
        sh = sorted(s0["sh"])
        steps = _steps(g.path_to_behaviour(nodes, labs), g, nodes)
        sk = json.dumps([scripts, mx, sh, [list(s[:2]) for s in steps]])
        if sk in seen:
            continue
        seen.add(sk)
        res = W.run_schedule(scripts, mx, steps, sh)
        solo = {}
        for c, sc in scripts.items():
            k2 = (c, tuple(sc), c in sh)
            if k2 not in solo_cache:
                solo_cache[k2] = W.run_solo(c, sc, c in sh)
            solo[c] = solo_cache[k2]
        accepted = sum(1 for e in res["mon"] if e["e"] == "ServeBegin")
        ctx.case([scripts, mx, [(t["k"], t["c"]) for t in res["trace"]]], nontrivial=accepted >= 2,
                 sample={"scripts": scripts, "max_connections": mx or None,
                         "schedule": [f"{t['k']}{t['c'] or ''}:{t['lab']}" for t in res["trace"]],
                         "history": [f"{e['e']}({e['c']})" for e in res["mon"]], "observed": res["obs"]}
                 if pi % 53 == 0 else None)
        if res["drift"]:
            ctx.drift.append({"scripts": scripts, "mx": mx, "drift": res["drift"]})
        runs.append({"scripts": scripts, "mx": mx, "sh": sh, "steps": [list(s[:3]) for s in steps], "res": res, "solo": solo})

    # ---- (3) code -> spec
    n_of = lambda r: len(r["scripts"])  # noqa: E731
    traces = [{"s": [r["scripts"][c] for c in sorted(r["scripts"])], "mx": r["mx"], "sh": r["sh"], "ev": r["res"]["trace"],
               "obs": [[[k, v] for k, _t, v in r["res"]["obs"][c]] for c in sorted(r["scripts"])]} for r in runs]
    kw = _wrapper(wd, "T_Conn", "ConnIsoTrace", "{}")
    vs = tracecheck.validate(ctx, wd, "T_Conn", traces, constants={"SharedState": False}, name="ConnIsoTrace", **kw)
    ok = 0
    for r, v in zip(runs, vs):
        r["tlc"] = v
        if v["matched"] == v["len"] and not v["bad"]:
            ok += 1
        elif v["matched"] != v["len"] or "obs" in v["bad"]:
            tr = r["res"]["trace"]
            ctx.drift.append({"scripts": r["scripts"], "mx": r["mx"], "trace_rejected_at": v["matched"], "bad": v["bad"],
                              "event": tr[v["matched"]] if v["matched"] < len(tr) else None})
    ctx.extra["step_traces_total"] = len(traces)
    ctx.extra["schedules_with_client_owned_segments"] = sum(bool(r["sh"]) for r in runs)
    ctx.extra["stream_batches_delivered_through_client_segments"] = sum(r["res"]["via_shm"] for r in runs)
    ctx.extra["schedules_with_abnormal_connection_end"] = sum(any("g" in s for s in r["scripts"].values()) for r in runs)
    ctx.extra["step_traces_accepted_by_ConnIsoTrace"] = ok
    observations = []
    for r in runs:
        res, cs = r["res"], sorted(r["scripts"])
        observations.append({"case": {"mx": r["mx"], "n": n_of(r)},
                             "obs": {"ev": res["mon"], "obs": [res["obs"][c] for c in cs], "solo": [r["solo"][c] for c in cs],
                                     "tags": [W.tag_of(c) for c in cs], "entry": res["entry"].get("mx", -1),
                                     "done": [bool(res["done"][c]) and c not in res["client_errors"] for c in cs]}})
    # the TCP entry point shares the accept loop; what it hands to the loop is observed, the loop is run over AF_UNIX
    tcp = {m: W.probe_tcp_entry(m) for m in (0, 1, 2)}
    ctx.extra["serve_tcp_hands_to_accept_loop"] = tcp
    n_real = len(observations)
    for m, got in tcp.items():
        observations.append({"case": {"mx": m, "n": 0}, "obs": {"ev": [], "obs": [], "solo": [], "tags": [], "done": [],
                                                              "entry": got.get("mx", -1)}})
    bad_obs = table.judge(ctx, "conc", "ConnIsoMonitor", observations)
    for i, clauses in bad_obs:
        if i >= n_real:
            m = (0, 1, 2)[i - n_real]
            for c in clauses:
                ctx.violation(c, {"entry": "serve_tcp", "max_connections": m or None}, {"handed_to_accept_loop": tcp[m]})
            continue
        r = runs[i]
        res = r["res"]
        det = {"scripts": r["scripts"], "max_connections": r["mx"] or None, "connections_with_own_shm_segment": r["sh"], "schedule": r["steps"],
               "executed": res["trace"], "history": res["mon"], "observed": res["obs"], "solo": r["solo"],
               "client_errors": res["client_errors"], "thread_errors": res["thread_errors"], "hang": res["hang"],
               "stuck": res["stuck"], "tlc_trace": r.get("tlc")}
        for c in clauses:
            ctx.violation(c, {"entry": "serve_unix", "max_connections": r["mx"] or None, "connections": n_of(r), "own_segment": r["sh"],
                              "ops": sorted({op for s in r["scripts"].values() for op in s})}, det)
    ctx.traces_validated = ok
    ctx.assume("interleavings are explored at park-point granularity (threading primitives of _transport, blocking "
               "socket calls, method bodies); the accept loop's threads are shimmed, sockets are real")
