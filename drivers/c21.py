"""C21 -- 401 responses follow the unauthorized specification.  Spec: spec/gate/Unauthorized.tla."""
import html as _html
import json
import re
from dataclasses import dataclass
from typing import Protocol

import pyarrow as pa

from vf import table, world
from vf.core import Ctx
from vf.tlc import Raw

from drivers import _authb_world as W
from vgi_rpc.rpc import ProducerState, Stream
from vgi_rpc.utils import ArrowSerializableDataclass

META = {
    "engine": "gate",
    "text": "Unauthorized.tla gives the composition semantics of authenticator trees (single, chains of 2-3, "
            "require_all with/without inner, nested; stub / bearer / XFCC leaves, stub / proxy-proof gates) over "
            "every exception kind a member can raise, and the response contract (401, closed-set reason in header "
            "and JSON envelope, no-store, proxy note iff the configuration depends on proxy headers, 503 on "
            "outage).  TLC checks the table invariants, enumerates every (configuration, composition, outcome "
            "assignment, Accept, route) case; each is built from the real chain_authenticate / require_all / "
            "bearer / mTLS / proxy_proof_gate callables plus header-driven stubs, mounted with make_wsgi_app and "
            "requested; every response is also handed to the real client; TLC judges each observation "
            "(Conforms), each service's set of notes (ConformsSvc) and the client's handling of arbitrary 401 "
            "bodies through four client entry points (ClientConforms).",
    "note": "Trusted: Unauthorized.tla's transcription of docs/unauthorized-spec.md; clauses named Doc_* come from "
            "the document only (not from the property statement) and are recorded as drift, never as violations; "
            "extraction of the note text from the HTML page by a regex.",
}


@dataclass(frozen=True)
class Hdr(ArrowSerializableDataclass):
    n: int


class CProto(Protocol):
    def plain(self, x: int) -> int: ...
    def s(self) -> Stream[ProducerState]: ...
    def sh(self) -> Stream[ProducerState, Hdr]: ...


ACCEPT = {"absent": None, "any": "*/*", "json": "application/json", "html": "text/html",
          "html_mixed": "text/html,application/xhtml+xml,application/xml;q=0.9,*/*;q=0.8",
          "arrow": "application/vnd.apache.arrow.stream"}
_NOTE = re.compile(r'<div class="note"><strong>.*?</strong>(.*?)</div>', re.S)


def _consts(quick: bool) -> dict:
    if quick:
        return {"Outs": Raw('{"ok", "miss", "inv", "exp", "ve", "pe", "proof", "down", "bogus"}'),
                "Outs3": Raw('{"ok", "miss", "exp", "pe", "down"}'), "Deep": False}
    return {"Outs": Raw('{"ok", "miss", "inv", "exp", "scope", "proxy", "unauth", "ve", "pe", "proof", "down", "bogus"}'),
            "Outs3": Raw('{"ok", "miss", "inv", "exp", "scope", "proxy", "unauth", "ve", "pe", "proof", "down", "bogus"}'),
            "Deep": True}


class _Services:
    def __init__(self) -> None:
        self.server, self.proto = W.build_service({"plain": "unary", "s": "producer"})
        self.apps: dict = {}

    def app(self, cfg: dict, tree: dict):
        key = json.dumps([cfg, W.strip_outs(tree)], sort_keys=True)
        if key not in self.apps:
            from vgi_rpc.http._oauth import OAuthResourceMetadata

            meta = None
            if cfg["pkce"]:
                meta = OAuthResourceMetadata(resource="http://localhost:8000/", authorization_servers=("http://127.0.0.1:1",),
                                             client_id="cid")
            client = W.make_sync_client(self.server, token_key=W.KEY, authenticate=W.build_tree(tree),
                                        proxy_auth_headers=["X-Custom-Client-Cert"] if cfg["pah"] else None,
                                        proxy_proof_required=cfg["ppr"], oauth_resource_metadata=meta, enable_sticky=True)
            self.apps[key] = (client, {"notes": {}, "seq": []})
        return key, self.apps[key]


def _send(client, route: str, headers: dict, ubody: bytes):
    ct = {"Content-Type": world.ARROW_CT}
    if route == "unary":
        return W.request(client, "POST", "/plain", ubody, {**ct, **headers})
    if route == "init":
        return W.request(client, "POST", "/s/init", W.init_body("s"), {**ct, **headers})
    if route == "describe":
        return W.request(client, "POST", "/__describe__", W.init_body("__describe__"), {**ct, **headers})
    if route == "landing":
        return W.request(client, "GET", "/", None, headers)
    if route == "session":
        return W.request(client, "DELETE", "/__session__", None, headers)
    raise RuntimeError(route)


def _client_view(content: bytes):
    """What the real client makes of this 401 body."""
    from vgi_rpc.http._client import _open_response_stream

    try:
        _open_response_stream(content, 401)
        return "", ""
    except BaseException as e:  # noqa: BLE001 - the type is the observation
        return type(e).__name__, str(getattr(getattr(e, "reason", ""), "value", getattr(e, "reason", "")) or "")


def _observe(status: int, rh: dict, content: bytes) -> tuple[dict, str]:
    ctype_h = rh.get("content-type", "")
    ctype = "json" if ctype_h.startswith("application/json") else ("html" if ctype_h.startswith("text/html") else "other")
    breason, berror, bhint, hint_text = "", False, False, ""
    if ctype == "json":
        try:
            body = json.loads(content)
            if isinstance(body, dict):
                breason = body.get("reason") if isinstance(body.get("reason"), str) else ""
                berror = body.get("error") == "unauthorized"
                if "proxy_hint" in body:
                    hint_text = str(body["proxy_hint"])
                    bhint = hint_text != ""
        except ValueError:
            pass
    hhtml = False
    if ctype == "html" and status == 401:
        m = _NOTE.search(content.decode("utf-8", "replace"))
        if m:
            hhtml = True
            hint_text = _html.unescape(m.group(1))
    cerr, creason = ("", "")
    if status == 401:
        cerr, creason = _client_view(content)
    o = {"status": status, "hreason": rh.get("vgi-auth-reason", ""), "ctype": ctype, "breason": breason,
         "berror": berror, "nostore": "no-store" in rh.get("cache-control", "").lower(),
         "phdr": rh.get("vgi-auth-proxy-required", ""), "bhint": bhint, "hhtml": hhtml,
         "retry": "retry-after" in rh, "creason": creason, "cerr": cerr}
    note = json.dumps([o["phdr"], hint_text.strip()])
    return o, note


# ---------------------------------------------------------------------------------------------- client side
def _arrow_body() -> bytes:
    return world.ipc_stream(pa.schema([pa.field("v", pa.int64())]), [])


def _client_body(shape: str, reason: str) -> bytes:
    env = {"error": "unauthorized", "reason": reason, "detail": "nope"}
    j = lambda x: json.dumps(x).encode()  # noqa: E731
    table_ = {
        "envelope": lambda: j(env),
        "envelope_extra": lambda: j({**env, "proxy_hint": "check the proxy", "x_future_field": [1, 2, {"a": None}]}),
        "envelope_bom": lambda: b"\xef\xbb\xbf" + j(env),
        "envelope_utf16": lambda: json.dumps(env).encode("utf-16"),
        "obj_no_reason": lambda: j({"error": "unauthorized", "detail": "x"}),
        "obj_reason_int": lambda: j({**env, "reason": 7}),
        "obj_reason_null": lambda: j({**env, "reason": None}),
        "obj_reason_list": lambda: j({**env, "reason": [reason]}),
        "obj_reason_obj": lambda: j({**env, "reason": {"code": reason}}),
        "obj_reason_unknown": lambda: j({**env, "reason": reason + "_v2"}),
        "obj_reason_upper": lambda: j({**env, "reason": reason.upper()}),
        "obj_reason_padded": lambda: j({**env, "reason": " " + reason + "\n"}),
        "obj_reason_nul": lambda: j({**env, "reason": reason + "\x00"}),
        "obj_detail_nonstr": lambda: j({**env, "detail": {"nested": [1, 2]}, "proxy_hint": 12}),
        "obj_long_detail": lambda: j({**env, "detail": "x" * 200_000}),
        "array": lambda: j([env]),
        "string": lambda: j(reason),
        "number": lambda: b"401",
        "null": lambda: b"null",
        "true": lambda: b"true",
        "nan": lambda: b'{"error":"unauthorized","reason":NaN}',
        "bignum": lambda: b'{"reason": ' + b"9" * 6000 + b"}",
        "html_doctype": lambda: b"<!DOCTYPE html><html><body>401 " + reason.encode() + b"</body></html>",
        "html_tag": lambda: b"  <html><head><title>Sign in</title></head></html>",
        "html_upper": lambda: b"<!doctype HTML><HTML></HTML>",
        "text": lambda: b"Unauthorized: " + reason.encode(),
        "empty": lambda: b"",
        "whitespace": lambda: b" \r\n\t ",
        "binary": lambda: bytes(range(256)) * 3,
        "invalid_utf8": lambda: b'{"reason": "\xff\xfe' + reason.encode() + b'"}',
        "arrow_ipc": _arrow_body,
        "deep_array": lambda: b"[" * 100_000,
        "deep_object": lambda: b'{"reason":' * 50_000 + b'"' + reason.encode() + b'"' + b"}" * 50_000,
        "dup_keys": lambda: b'{"reason":"bogus","reason":"' + reason.encode() + b'","error":"unauthorized","detail":"d"}',
    }
    return table_[shape]()


class _Fake401:
    prefix = ""

    def __init__(self, body: bytes, ctype: str) -> None:
        self.body, self.ctype = body, ctype

    def _r(self):
        from vgi_rpc.http._testing import _SyncTestResponse

        return _SyncTestResponse(401, self.body, headers={"content-type": self.ctype})

    def post(self, url, *, content, headers):
        return self._r()

    def get(self, url, *, headers=None):
        return self._r()

    def options(self, url, *, headers=None):
        from vgi_rpc.http._testing import _SyncTestResponse

        return _SyncTestResponse(200, b"", headers={})

    def close(self) -> None:
        pass


def _client_case(case: dict) -> dict:
    from vgi_rpc.http import http_connect
    from vgi_rpc.http._client import _parse_unauthorized

    body = _client_body(case["shape"], case["reason"])
    raised, reason = "", ""
    try:
        if case["entry"] == "parse":
            e = _parse_unauthorized(body)      # returns the error it would raise
            raised, reason = type(e).__name__, str(getattr(e.reason, "value", e.reason))
        else:
            fake = _Fake401(body, "text/html" if case["shape"].startswith("html") else "application/json")
            with http_connect(CProto, client=fake) as proxy:
                if case["entry"] == "unary":
                    proxy.plain(x=1)
                else:
                    for _ in (proxy.s() if case["entry"] == "stream" else proxy.sh()):
                        pass
    except BaseException as e:  # noqa: BLE001 - the type is the observation
        raised = type(e).__name__
        r = getattr(e, "reason", "")
        reason = str(getattr(r, "value", r) or "")
    return {"raised": raised, "reason": reason}


def run(ctx: Ctx) -> None:
    W.quiet()
    quick = ctx.quick
    consts = _consts(quick)
    sanity = ["A_ReasonInClosedSet", "A_PkceTransparent", "A_MissingOnlyIfAllMissing", "A_GateFailureIsProxyRequired",
              "A_OutageNeverRejects", "A_AllowGateNeverDeclares", "A_ClientSane"]
    rec = getattr(ctx, "replay_record", None)
    cases: list = []
    ccases: list = []
    if rec and rec["detail"].get("side") in ("server", "client"):
        d = rec["detail"]
        (ccases if d.get("side") == "client" else cases).append({"case": d["case"], "exp": d.get("exp", {})})
    else:
        for cj in table.enumerate_cases(ctx, "gate", "Unauthorized", constants=consts, invariants=sanity,
                                        cases="AllCases", expected="AllExpected"):
            (cases if cj["case"]["side"] == "server" else ccases).append({"case": cj["case"]["c"], "exp": cj["exp"]})
        ctx.exhaustive = True
    ctx.rule = ("server case = (proxy_auth_headers?, proxy_proof_required?, PKCE?, authenticator composition with the "
                "outcome of every member on this request, Accept, route) from Unauthorized!Cases; client case = (401 body "
                "shape, reason, client entry point) from Unauthorized!ClientCases; non-trivial = distinct (service, "
                "request headers, route) requests executed on a real app / distinct (body, entry) runs of the real "
                "client.  Document-only obligations (Doc_*: reason as classified, note present when the configuration "
                "depends on a proxy, Retry-After, client reason round trip) are reported as drift, not violations")
    ctx.assume("stub authenticators raise the exception kinds the real ones raise; real bearer / XFCC / proxy_proof_gate "
               "leaves are driven through their own request headers",
               "note identity = (VGI-Auth-Proxy-Required value, proxy_hint text) with the HTML page's note block unescaped")
    svc = _Services()
    ubody = W.unary_body(svc.server, "plain")

    obs: list = []
    for cj in cases:
        case = cj["case"]
        key, (client, book) = svc.app(case["cfg"], case["tree"])
        real = '"bearer"' in json.dumps(case["tree"]) or '"proof_' in json.dumps(case["tree"])
        seen_h = set()
        for _variant in range(1 if (quick or not real) else 3):      # several concrete credentials / proofs per class
            hdrs = W.tree_headers(case["tree"], ctx.rng)
            acc = ACCEPT[case["accept"]]
            if acc is not None:
                hdrs["Accept"] = acc
            hk = json.dumps({k: (v if k != "VGI-Proxy-Proof" else v.split(".")[1:3]) for k, v in sorted(hdrs.items())})
            if hk in seen_h and _variant:
                continue
            seen_h.add(hk)
            W.reset()
            status, rh, content = _send(client, case["route"], hdrs, ubody)
            o, note = _observe(status, rh, content)
            if status == 401:
                nid = book["notes"].setdefault(note, len(book["notes"]) + 1) if note != json.dumps(["", ""]) else 0
                book["seq"].append(nid)
            conc = {"service": key, "route": case["route"], "headers": {k: v for k, v in sorted(hdrs.items())}}
            obs.append({"case": case, "obs": o, "_c": conc, "_exp": cj["exp"], "_log": list(W.LOG)})
            ctx.case([key, case["route"], sorted(hdrs.items())])
    for o in (obs[:: max(1, len(obs) // 3)])[:3]:
        ctx.sample({"abstract_case": o["case"], "oracle": o["_exp"], "concrete": o["_c"], "observed": o["obs"],
                    "authenticator_log": o["_log"]})

    def report(cl: str, sig: dict, detail: dict) -> None:
        if cl.startswith("Doc_"):
            ctx.drift.append({"clause": cl, "sig": sig, "detail": {k: v for k, v in detail.items() if k != "case"}})
        else:
            ctx.violation(cl, sig, detail)

    judged: list = []      # (observation for TLC, sig, detail)
    for o in obs:
        judged.append(({"case": o["case"], "obs": {**o["obs"], "side": "server"}},
                       {"side": "server", "tree_kind": o["case"]["tree"]["k"], "route": o["case"]["route"],
                        "accept": o["case"]["accept"], "cfg": o["case"]["cfg"], "expected": o["_exp"].get("r"),
                        "status": o["obs"]["status"], "hreason": o["obs"]["hreason"]},
                       {"side": "server", "case": o["case"], "exp": o["_exp"], "concrete": o["_c"], "observed": o["obs"]}))
    # service level: one observation per service = the identities of the notes on all its 401s
    nsvc = 0
    for key, (_client, book) in svc.apps.items():
        if book["seq"]:
            nsvc += len(book["seq"]) > 1
            judged.append(({"case": {"service": key}, "obs": {"side": "service", "notes": book["seq"]}},
                           {"side": "service", "service": key}, {"side": "service", "notes": book["seq"]}))
    ctx.extra["services_built"] = len(svc.apps)
    ctx.extra["services_with_several_401s"] = nsvc
    for cj in ccases:
        case = cj["case"]
        o = _client_case(case)
        ctx.case(["client", case["shape"], case["reason"], case["entry"]])
        judged.append(({"case": case, "obs": {**o, "side": "client"}},
                       {"side": "client", "shape": case["shape"], "entry": case["entry"], "raised": o["raised"]},
                       {"side": "client", "case": case, "observed": o}))
        if case["shape"] == "envelope_extra" and case["entry"] == "stream_header" and case["reason"] == "expired_credential":
            ctx.sample({"client_case": case, "observed": o})
    if judged:
        bad = table.judge(ctx, "gate", "Unauthorized", [j[0] for j in judged], constants=consts, conforms="AllConforms")
        for idx, clauses in bad:
            for cl in clauses:
                report(cl, judged[idx][1], judged[idx][2])
    ctx.extra["doc_only_discrepancies_not_judged"] = [
        "unauthorized-spec §6 asks the client to fall back to the VGI-Auth-Reason header when the body carries no "
        "reason; _parse_unauthorized only sees the body (the property statement does not require the fallback)"]
