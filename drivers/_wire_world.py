"""Real service + client generated from WireConn.tla's method table, and a script runner that records the
client-observable history in the spec's own vocabulary (shared by the wire-engine drivers C04/C10/C08/C34...)."""
import threading
import warnings
from dataclasses import dataclass

import pyarrow as pa

from vgi_rpc.rpc import (AnnotatedBatch, CallContext, ExchangeState, OutputCollector, ProducerState, RpcConnection,
                         RpcError, RpcServer, Stream, make_pipe_pair)
from vgi_rpc.utils import ArrowSerializableDataclass

warnings.filterwarnings("ignore")
OUT = pa.schema([pa.field("v", pa.int64())])
INP = pa.schema([pa.field("a", pa.int64())])


@dataclass
class Hdr(ArrowSerializableDataclass):
    n: int


@dataclass
class PState(ProducerState):
    x: int
    steps: list[str]
    k: int = 0
    nd: int = 0

    def produce(self, out: OutputCollector, ctx: CallContext) -> None:
        self.k += 1
        st = self.steps[self.k - 1] if self.k <= len(self.steps) else "fin"
        _step(self, st, out, ctx, None)


@dataclass
class XState(ExchangeState):
    x: int
    steps: list[str]
    k: int = 0
    nd: int = 0

    def exchange(self, input: AnnotatedBatch, out: OutputCollector, ctx: CallContext) -> None:
        self.k += 1
        st = self.steps[self.k - 1] if self.k <= len(self.steps) else "emit"
        _step(self, st, out, ctx, input)


TRACE = threading.local()


def _step(state, st: str, out: OutputCollector, ctx: CallContext, inp) -> None:
    log = getattr(TRACE, "server_log", None)
    if log is not None:
        log.append(("process", state.x, st))
    if st in ("logemit", "lograise", "log2emit"):
        ctx.client_log(_level(), f"log for {state.x}")
    if st == "log2emit":
        ctx.client_log(_level(), f"second log for {state.x}")
    if st in ("raise", "lograise"):
        raise ValueError(f"process boom x={state.x}")
    if st == "bademit":
        out.emit_pydict({"v": [2**63 + state.x]})       # a value int64 cannot hold
    if st in ("emit", "logemit", "log2emit", "emitfin"):
        state.nd += 1
        out.emit_pydict({"v": [state.x * 100 + state.nd]})
    if st in ("fin", "emitfin"):
        out.finish()


def _level():
    from vgi_rpc.log import Level

    return Level.INFO


def build(methods: list[dict], version_mismatch: bool = False):
    """methods: WireConn!Methods as JSON.  Returns (ServerProtocol, Impl instance, ClientProtocol, server_log)."""
    server_log: list = []
    src_s, src_c, src_i = [], [], []
    for m in sorted(methods, key=lambda z: z["n"]):
        n = m["n"]
        if n == "__describe__":     # built into the framework, not part of the generated protocol
            continue
        if m["k"] == "unary":
            ret = "int"
        else:
            base = "ProducerState" if m["k"] == "prod" else "ExchangeState"
            ret = f"Stream[{base}, Hdr]" if m["hdr"] else f"Stream[{base}]"
        cparam = "x: str" if m["badp"] else "x: int"
        src_c.append(f"    def {n}(self, {cparam}) -> {ret}: ...")
        if not m["known"]:
            continue
        src_s.append(f"    def {n}(self, x: int) -> {ret}: ...")
        body = [f"    def {n}(self, x: int, ctx: CallContext) -> {ret}:", f"        LOG.append(('call', x, '{n}'))"]
        if m["k"] == "unary":
            if m["u"] in ("logok", "lograise"):
                body += ["        ctx.client_log(LEVEL, f'log1 for {x}')", "        ctx.client_log(LEVEL, f'log2 for {x}')"]
            if m["u"] == "badresult":
                body.append("        return 2**63 + x")       # a value the declared int64 result cannot hold
            elif m["u"] in ("raise", "lograise"):
                body.append("        raise ValueError(f'unary boom x={x}')")
            else:
                body.append("        return x")
        else:
            if m["init"] == "raise":
                body.append("        raise ValueError(f'init boom x={x}')")
            elif m["init"] == "nonstream":
                body.append("        return x")
            else:
                st = "PState" if m["k"] == "prod" else "XState"
                hdr = "None" if m["init"] == "hdrnone" else "Hdr(n=2**63 + x)" if m["init"] == "hdrbad" else ("Hdr(n=x)" if m["hdr"] else "None")
                inp = "" if m["k"] == "prod" else ", input_schema=INP"
                body.append(f"        return Stream(output_schema=OUT, state={st}(x=x, steps={list(m['steps'])!r}){inp}, header={hdr})")
        src_i += body
    ver_s = "    protocol_version: ClassVar[str] = '2.0.0'\n" if version_mismatch else ""
    ver_c = "    protocol_version: ClassVar[str] = '1.0.0'\n" if version_mismatch else ""
    code = ("from typing import ClassVar, Protocol\n"
            "class WireSvc(Protocol):\n" + ver_s + "\n".join(src_s) + "\n"
            "class WireClientSvc(Protocol):\n" + ver_c + "\n".join(src_c) + "\n"
            "class Impl:\n" + "\n".join(src_i) + "\n")
    ns = {"Stream": Stream, "ProducerState": ProducerState, "ExchangeState": ExchangeState, "Hdr": Hdr,
          "CallContext": CallContext, "PState": PState, "XState": XState, "OUT": OUT, "INP": INP,
          "LOG": server_log, "LEVEL": _level()}
    exec(compile(code, "<wire-world>", "exec"), ns)  # noqa: S102 - generated from the spec's method table
    ns["WireClientSvc"].__name__ = "WireSvc"   # same protocol name on the wire
    return ns["WireSvc"], ns["Impl"](), ns["WireClientSvc"], server_log


class CallbackBoom(Exception):
    pass


def run_script(methods_by_name: dict, pair_factory, server_proto, impl, client_proto, server_log, script: list,
               xs: list[int], timeout: float = 6.0, probe: str = "u_ok") -> dict:
    """Run one client script (+ probe) over a fresh connection.  Returns obs, per-call ownership, liveness."""
    del server_log[:]
    ct, st = pair_factory()
    server = RpcServer(server_proto, impl, enable_describe=True)
    died: list = []

    def serve():
        TRACE.server_log = server_log
        try:
            server.serve(st)
        except BaseException as e:  # noqa: BLE001
            died.append(repr(e))

    sth = threading.Thread(target=serve, daemon=True)
    sth.start()
    obs: list = []
    own: list[bool] = []
    state = {"raise_in_log": False, "quiet": False, "nlogs": 0, "x": None, "own": True}

    def on_log(msg):
        if state["raise_in_log"]:
            raise CallbackBoom("log callback raised")
        if state["quiet"]:
            return
        state["nlogs"] += 1
        if str(state["x"]) not in msg.message:
            state["own"] = False
        if state["raise_in_log"]:
            raise CallbackBoom("log callback raised")
        state.setdefault("pending", []).append(["log"])

    def check(text) -> None:
        if f"x={state['x']}" not in str(text) and f"'{state['x']}'" not in str(text) and str(state["x"]) not in str(text):
            state["own"] = False

    calls = list(script) + [{"m": probe, "ops": []}]

    def body():
        with RpcConnection(client_proto, ct, on_log=on_log) as px:
            for call, x in zip(calls, xs):
                m = methods_by_name[call["m"]]
                state.update(raise_in_log=(call["ops"][:1] == ["L"]), quiet=False, nlogs=0, x=x, own=True, pending=[])
                arg = str(x) if m["badp"] else x
                obs.append(["call"])
                try:
                    if m["n"] == "__describe__":
                        from vgi_rpc.introspect import introspect

                        try:
                            d = introspect(ct)
                            names = {md.name for md in d.methods} if not isinstance(d.methods, dict) else set(d.methods)
                            if names != {k for k, v in methods_by_name.items() if v["known"] and k != "__describe__"}:
                                state["own"] = False
                            obs.append(["result", 0])
                        except RpcError as e:
                            obs.append(["transport_error"] if e.error_type == "TransportError" else ["err", 0])
                        except Exception as e:  # noqa: BLE001
                            obs.append(["client_exception", type(e).__name__])
                        continue
                    if m["k"] == "unary":
                        try:
                            r = getattr(px, m["n"])(x=arg)
                            if r != x:
                                state["own"] = False
                            obs.append(["result", state["nlogs"]])
                        except CallbackBoom:
                            obs.append(["callback_raised"])
                        except Exception as e:  # noqa: BLE001
                            if not isinstance(e, RpcError):
                                obs.append(["client_exception", type(e).__name__])
                            elif e.error_type == "TransportError":
                                obs.append(["transport_error"])
                            else:
                                if (m["known"] and not m["badp"] and m["u"] != "badresult"      # (OverflowError's text is Python's own)
                                        and not getattr(client_proto, "protocol_version", None)):
                                    check(e)
                                obs.append(["err", state["nlogs"]])
                        continue
                    try:
                        sess = getattr(px, m["n"])(x=arg)
                    except RpcError as e:
                        obs.append(["transport_error"] if e.error_type == "TransportError" else ["err", 0])
                        continue
                    except Exception as e:  # noqa: BLE001 - anything else the client lets escape
                        obs.append(["client_exception", type(e).__name__])
                        continue
                    if m["hdr"]:
                        h = sess.header
                        if h is None or h.n != x:
                            state["own"] = False
                        obs.append(["hdr", 0])
                    ended = False

                    def one_tick(bad=False):
                        state["pending"] = []
                        try:
                            if m["k"] == "prod":
                                ab = sess.tick()
                            elif bad:     # a batch whose schema is not the stream's input schema
                                ab = sess.exchange(AnnotatedBatch(batch=pa.RecordBatch.from_pydict({"b": ["z"]})))
                            else:
                                ab = sess.exchange(AnnotatedBatch(batch=pa.RecordBatch.from_pydict({"a": [1]}, schema=INP)))
                        except CallbackBoom:
                            obs.extend(state["pending"])
                            obs.append(["callback_raised"])
                            return "boom"
                        except StopIteration:
                            obs.extend(state["pending"])
                            obs.append(["stop"])
                            return True
                        except RpcError as e:
                            obs.extend(state["pending"])
                            if e.error_type == "TransportError":
                                obs.append(["transport_error"])
                            else:
                                obs.append(["err", 0])
                            return True
                        except Exception as e:  # noqa: BLE001
                            obs.append(["client_exception", type(e).__name__])
                            return True
                        obs.extend(state["pending"])
                        v = ab.batch.column("v")[0].as_py()
                        if v // 100 != x:
                            state["own"] = False
                        obs.append(["data", v % 100])
                        return False

                    ops = [o for o in call["ops"] if o != "L"]
                    oi = 0
                    def post_op(op):
                        """An operation on a session that has already ended: nothing may reach the wire."""
                        if op in ("t", "i", "b"):
                            try:
                                if m["k"] == "prod":
                                    sess.tick()
                                else:
                                    sess.exchange(AnnotatedBatch(batch=pa.RecordBatch.from_pydict({"a": [1]}, schema=INP)))
                                obs.append(["post_served"])
                            except RpcError as e:
                                obs.append(["closed_error"] if e.error_type == "ProtocolError" else
                                           ["transport_error"] if e.error_type == "TransportError" else ["err", 0])
                            except StopIteration:
                                obs.append(["stop"])
                            except Exception as e:  # noqa: BLE001
                                obs.append(["client_exception", type(e).__name__])
                        elif op == "c":
                            sess.close()
                        elif op == "x":
                            sess.cancel()

                    while oi < len(ops):
                        op = ops[oi]
                        oi += 1
                        if ended:
                            state["quiet"] = True
                            post_op(op)
                            continue
                        if op == "t":
                            ended = one_tick()
                            if ended == "boom":      # callback raised out of tick(): go to the script's exit op
                                ended = False
                                oi = len(ops) - 1
                        elif op == "b":
                            ended = one_tick(bad=True)
                        elif op == "i":
                            while not ended:
                                ended = one_tick()
                        elif op == "c":
                            state["quiet"] = True
                            sess.close()
                            ended = True
                        elif op == "x":
                            state["quiet"] = True
                            sess.cancel()
                            ended = True
                    if not ended:
                        state["quiet"] = True
                        sess.close()
                except Exception as e:  # noqa: BLE001 - e.g. close()/cancel() letting something escape
                    obs.append(["client_exception", type(e).__name__])
                finally:
                    own.append(state["own"])

    th = threading.Thread(target=body, daemon=True)
    th.start()
    th.join(timeout)
    hung = th.is_alive()
    if not hung:
        sth.join(0.5)          # the client closed its side: the serve loop must end by itself (EOF)
    died_snapshot = list(died)
    server_stuck = (not hung) and sth.is_alive()
    if not hung and not server_stuck:
        # (closing a transport another thread is blocked on would block on the buffer lock: leak it instead)
        for t in (ct, st):
            try:
                t.close()
            except Exception:  # noqa: BLE001
                pass
    return {"obs": obs, "own": own, "hung": hung, "server_died": died_snapshot, "server_stuck": server_stuck,
            "server_log": list(server_log)}
