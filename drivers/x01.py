"""X01 (extended coverage) -- life cycle of dispatch hooks (_DispatchHook / _CompositeDispatchHook, the otel / sentry
extension point).  spec/wire/HookLife.tla (state machine with the ghost server trace + monitor), HookLifeTrace.tla."""
import json
import time

from drivers import _extra1_world as W
from vf import tracecheck
from vf.core import Ctx
from vf.tlc import render_cfg, require_ok, run_tlc, sany, wrap_module

META = {
    "engine": "wire",
    "text": "TLC model-checks HookLife.tla: every call history of <= MaxCalls calls over an 18-method service (unary "
            "ok / raise, unknown method, rejected parameters, __describe__, producers with and without header, "
            "exchanges; init raise, first / later process() step raise, finish) x every client exit (k ticks then "
            "close or cancel, iterate to the end) x transport (pipe: a stream call is one dispatch; HTTP: /init, every "
            "continuation / exchange turn are dispatches) x every configuration of 0..2 hooks with behaviours ok / "
            "start raises / end raises, plus a version-mismatch world, with the ghost server trace, against the "
            "monitor clauses NoDoubleStart, StartOrder, StartBeforeBody, EndAfterBody, NoEndWithoutStart, SameToken, "
            "EndOrder, ErrorIffFailed, ErrorIsTheException, HookOnlyAroundDispatch, EndExactlyOnce (+ TokensFresh, "
            "OpenIffStream, RejectedSilent).  Every TLC-enumerated single-call history and a seeded sample of the "
            "two-call histories is replayed on a real pipe connection (RpcServer.serve) and on the in-process HTTP "
            "client with recording hooks registered through _register_dispatch_hook and an instrumented service; the "
            "(client events, server event trace, detailed client history, hook-less detailed history) tuple is judged "
            "by TLC against HookLifeTrace.tla: the monitor runs on the REAL trace, Transparent compares the client's "
            "detailed history with the hook-less run, TraceDiffers (drift) compares the real trace with the model's.",
    "note": "Extended coverage: no listed property talks about the hook extension point.  Hard clause: Transparent "
            "(a hook that raises never changes what the client observes).  Deviations the code makes knowingly are "
            "modelled by Dev_ switches (pre-built __describe__ answer and HTTP cancel requests call no hook) and are "
            "not judged.  'Failed dispatch' = the instrumented implementation announced a raise inside the dispatch "
            "(fault event); token identity = the object handed out by that hook's own start.  Trusted: the recorder's "
            "total order (one server thread per pipe connection; in-process HTTP runs in the caller's thread).",
    "technique": "TLC exhaustive exploration of a TLA+ state machine with a ghost event trace and a monitor; "
                 "TLC-enumerated histories replayed on real pipe / in-process HTTP connections with recording hooks; "
                 "TLC trace validation (monitor on the recorded trace, model comparison as drift)",
}

INVS = ["PrefixClean", "DoneClean", "TokensFresh", "OpenIffStream", "RejectedSilent"]
BEH = ["ok", "rs", "re"]
EVKEYS = ("ev", "h", "m", "tok", "err", "raised")
# hook configurations that go on to a second call (model constant PairHooks)
PAIR_Q = [[], ["ok"], ["re", "ok"], ["rs", "re"]]
PAIR_T = [[], ["ok"], ["rs"], ["re"], ["ok", "ok"], ["re", "ok"], ["ok", "rs"], ["rs", "re"], ["re", "re"]]


def tla_seq(x) -> str:
    return "<<" + ", ".join('"%s"' % b for b in x) + ">>"


def consts(max_calls, max_ticks, transports=("pipe", "http"), ver=False, full_pairs=True, fix=True, max_hooks=2):
    return {"MaxCalls": max_calls, "MaxTicks": max_ticks, "MaxHooks": max_hooks, "Behaviours": set(BEH),
            "Transports": set(transports), "VerMismatch": ver, "FullPairs": full_pairs,
            "Dev_DescribeUnhooked": True, "Dev_HttpCancelUnhooked": True,
            "FixHttpTurnError": fix, "FixHttpErrorUnwrapped": fix}


def model_check(ctx: Ctx, wd, name: str, cs: dict, pair_hooks: list | None):
    ph = "HookCfgs" if pair_hooks is None else "{" + ", ".join(tla_seq(h) for h in pair_hooks) + "}"
    wrap_module(wd, "HookLife", "MC_HookLife", {
        "PairHooksDef": ph,
        "EmitMethods": 'PrintT("@@J@@" \\o ToJson([methods |-> Methods]))',
        "Emit": 'Done => PrintT("@@J@@" \\o ToJson([tr |-> tr, hooks |-> hooks, script |-> script, hist |-> hist, '
                'strace |-> strace]))'}, extends="TLC, Json")
    src = (wd / "MC_HookLife.tla").read_text().replace("====", "ASSUME EmitMethods\n====")
    (wd / "MC_HookLife.tla").write_text(src)
    r = run_tlc(wd, "MC_HookLife", render_cfg(constants=cs, overrides={"PairHooks": "PairHooksDef"},
                                              invariants=INVS + ["Emit"]),
                timeout=1500, cfg_name=f"mc_{abs(hash(name)) % 10**6}.cfg",
                env={"JAVA_TOOL_OPTIONS": "-XX:TieredStopAtLevel=1"})
    ctx.add_tlc(name, r)
    require_ok(r, f"HookLife intended design ({name})")
    methods = next(j["methods"] for j in r.json_lines if "methods" in j)
    return methods, [j for j in r.json_lines if "script" in j]


class Worlds:
    """Real deployments, built once per (version world, transport, hook configuration)."""

    def __init__(self, methods: list) -> None:
        self.methods = methods
        self.built: dict = {}
        self.http: dict = {}
        self.current = None

    def _build(self, ver: bool):
        if self.current != ver:
            # W.build fills the module-level method table the state classes read: one world active at a time
            self.built[ver] = W.build(self.methods, ver)
            self.current = ver
            self.http = {}
        return self.built[ver]

    def conn(self, ver: bool, tr: str, hooks: list):
        sp, impl, cp = self._build(ver)
        if tr == "pipe":
            return W.PipeConn(sp, impl, cp, hooks)
        key = tuple(hooks)
        if key not in self.http:
            self.http[key] = W.HttpConn(sp, impl, cp, hooks)
        return self.http[key]


def replay(worlds: Worlds, ver: bool, tr: str, hooks: list, script: list, xs: list) -> dict:
    conn = worlds.conn(ver, tr, hooks)
    W.take_events()
    res, hung = W.with_watchdog(lambda: W.run_script(conn, script, xs), 8.0)
    closed = True
    if tr == "pipe":
        closed = (not hung) and conn.close(10.0)
    if hung and tr == "http":
        worlds.http.pop(tuple(hooks), None)
    evs = W.take_events()
    if res is None:
        res = {"hist": [["client", "hung"]], "obsd": ["HUNG"]}
    obsd = list(res["obsd"])
    if conn.died:
        obsd.append("SERVER-DIED:" + conn.died[0][:80])
    if not closed:
        obsd.append("SERVE-LOOP-DID-NOT-END")
    return {"hist": res["hist"], "obsd": obsd, "strace": [{k: e[k] for k in EVKEYS} for e in evs if e["ev"] != "alog"],
            "hung": hung, "died": list(conn.died), "errtexts": [e.get("errtext") for e in evs if e["ev"] == "end"]}


def run(ctx: Ctx) -> None:
    quick = ctx.quick
    wd = ctx.wd.stage("wire")
    sany(wd, "HookLife")
    sany(wd, "HookLifeTrace")
    W.install_logging(False)
    t0 = time.time()
    # the design as found (HTTP producer-turn failures end with error None; /init and exchange failures hand the hook
    # the transport's wrapper exception) violates the monitor: kept as documentation
    wrap_module(wd, "HookLife", "MC_AsFound", {"PairHooksDef": "HookCfgs"}, extends="TLC")
    r0 = run_tlc(wd, "MC_AsFound", render_cfg(constants=consts(1, 1, ("http",), fix=False, max_hooks=1),
                                              overrides={"PairHooks": "PairHooksDef"}, invariants=["DoneClean"]),
                 env={"JAVA_TOOL_OPTIONS": "-XX:TieredStopAtLevel=1"}, workers=2)
    ctx.extra["design_as_found_violates"] = r0.violated
    ctx.extra["design_as_found_counterexample_last_state"] = (r0.counterexample[-1][1][:1500] if r0.counterexample else None)

    mt = 2
    methods, one = model_check(ctx, wd, f"HookLife exhaustive MaxCalls=1 MaxTicks={mt} hooks<=2 pipe+http",
                               consts(1, mt), None)
    _, ver1 = model_check(ctx, wd, "HookLife exhaustive version-mismatch world MaxCalls=1 MaxTicks=1",
                          consts(1, 1, ver=True), None)
    pair_hooks = PAIR_Q if quick else PAIR_T
    _, two = model_check(ctx, wd, f"HookLife exhaustive MaxCalls=2 MaxTicks={1 if quick else 2} "
                                  f"{len(pair_hooks)} hook configurations, second call "
                                  f"{'short scripts' if quick else 'any'}",
                         consts(2, 1 if quick else 2, full_pairs=not quick), pair_hooks)
    two = [h for h in two if len(h["script"]) == 2]
    for hs in (one, ver1, two):
        hs.sort(key=lambda h: json.dumps([h["tr"], h["hooks"], h["script"]], sort_keys=True))   # TLC's order varies
    ctx.exhaustive = True
    ctx.rule = ("case = one call history (script of 1-2 calls with client exit points, transport, hook configuration) "
                "enumerated by TLC, replayed on a fresh real pipe connection / the in-process HTTP client with recording "
                "hooks; non-trivial = distinct (world, transport, hooks, script) tuples executed; single-call histories "
                "all, two-call histories a seeded sample")
    ctx.assume("HTTP legs use the in-process falcon test client (make_sync_client), one worker, no response cap",
               "socket-family transport = make_pipe_pair; the server trace is read after the serve loop ended (EOF)",
               "hooks are registered with vgi_rpc.rpc._common._register_dispatch_hook, as vgi_rpc.otel / sentry do",
               f"two-call histories: seeded sample of the TLC-enumerated set ({300 if quick else 5000})")
    ctx.rng.shuffle(two)
    n_pairs = 300 if quick else 5000
    ctx.extra["model_phase_s"] = round(time.time() - t0, 1)
    t1 = time.time()

    worlds = Worlds(methods)
    base_cache: dict = {}
    jobs = [(False, h) for h in one] + [(False, h) for h in two[:n_pairs]] + [(True, h) for h in ver1]
    jobs.sort(key=lambda j: j[0])                      # one world at a time
    traces, metas = [], []
    seed = ctx.rng.randrange(1, 50)
    for ji, (ver, h) in enumerate(jobs):
        xs = [seed * 10 + 3 * k + 1 for k in range(len(h["script"]))]
        bkey = json.dumps([ver, h["tr"], h["script"]], sort_keys=True)
        if bkey not in base_cache:
            base_cache[bkey] = replay(worlds, ver, h["tr"], [], h["script"], xs)
        base = base_cache[bkey]
        real = base if not h["hooks"] else replay(worlds, ver, h["tr"], list(h["hooks"]), h["script"], xs)
        ctx.case([ver, h["tr"], h["hooks"], h["script"]])
        traces.append({"tr": h["tr"], "hooks": h["hooks"], "script": h["script"], "events": real["hist"],
                       "strace": real["strace"], "obsd": real["obsd"], "based": base["obsd"]})
        metas.append((ver, h, real, base))
    ctx.extra["real_code_phase_s"] = round(time.time() - t1, 1)
    for i in range(0, len(jobs), max(1, len(jobs) // 5)):
        ver, h, real, base = metas[i]
        ctx.sample({"transport": h["tr"], "hooks": h["hooks"], "script": h["script"], "client_events": real["hist"],
                    "server_trace": [f"{e['ev']}:{e['h']}:{e['m']}:{e['tok']}:{e['err']}" for e in real["strace"]]})

    n_acc = 0
    for ver in (False, True):
        idx = [i for i, m in enumerate(metas) if m[0] == ver]
        if not idx:
            continue
        cs = consts(2, 3, ver=ver)
        vs = tracecheck.validate(ctx, wd, "HookLifeTrace", [traces[i] for i in idx], constants=cs,
                                 overrides={"PairHooks": "PairHooksAll"},
                                 name=f"HookLifeTrace: (client events, server trace) of every replay, ver_mismatch={ver}",
                                 chunk=4000)
        for i, v in zip(idx, vs):
            _, h, real, base = metas[i]
            det = {"script": h["script"], "hooks": h["hooks"], "transport": h["tr"], "version_mismatch_world": ver,
                   "client_events": real["hist"], "server_trace": real["strace"], "model_trace": h["strace"],
                   "model_events": h["hist"], "client_detail": real["obsd"], "hookless_detail": base["obsd"],
                   "end_error_texts": real["errtexts"], "tlc": v}
            bad = list(v["bad"])
            if v["accepted"]:
                n_acc += 1
                if not bad:
                    ctx.traces_validated += 1
            else:
                ctx.drift.append({"client_history_differs": True, "script": h["script"], "tr": h["tr"],
                                  "hooks": h["hooks"], "real": real["hist"], "model": h["hist"], "tlc": v})
            for cl in bad:
                name, _, meth = cl.partition("@")
                if name == "TraceDiffers":
                    if len(bad) == 1:
                        ctx.drift.append({"server_trace_differs": True, **det})
                    continue
                sig = {"tr": h["tr"], "hooks": "+".join(h["hooks"]) or "none", "m": meth or h["script"][0]["m"],
                       "world_ver_mismatch": ver}
                if name in ("ErrorIffFailed", "ErrorIsTheException"):
                    sig["hooks"] = "any"          # the reported error does not depend on the hook configuration
                ctx.violation(name, sig, det)
    ctx.extra["histories_replayed"] = len(jobs)
    ctx.extra["histories_accepted_by_model"] = n_acc
    ctx.extra["hook_configurations"] = sorted({"+".join(h["hooks"]) or "none" for _, h in jobs})
    for c in worlds.http.values():
        c.close()
