----------------------------------- MODULE Chunking -----------------------------------
(* C11 -- HTTP producer output is independent of chunking and resumption.

   One producer stream served by two workers that share the token key and have independent call-state caches,
   one client.  The configuration (script of cycle sizes, max_response_bytes, negotiated response codec, whether
   the producer finishes in the tick of its last batch, client API) is chosen in Init; everything after it is the
   protocol:

     Open(w)        POST /init on worker w: mints the call token, warms w's cache, runs the first turn
     Step           one iteration of the turn loop (snapshot budget, process(), flush, cap test) on the busy worker;
                    the iteration that ends the turn also delivers the response to the client
     Continue(w)    POST /exchange with the client's cursor (+ call) token on worker w: w resolves the call from its
                    cache (warm) or from the echoed call token (cold, then caches it), rebuilds the state at the
                    cursor position and runs a turn
     Resume(i, how) the application takes the resume token minted after batch i (every token ever minted stays
                    valid: the server is stateless) and positions a new session there -- seek_to_token on a
                    freshly initialised session or resume_stream without init
     Evict(w)       w loses its cache entry (LRU pressure from other streams, restart)

   Client APIs: "iter" (HttpStreamSession.__iter__, follows sentinels itself) and "nwt" (next_with_token: one data
   batch per response or RuntimeError -- the documented restriction).

   FixCodecCap separates the intended design from the code as found (see ChunkingCore): with FALSE TLC reports
   Overshoot violated for any script of three cycles under a codec.                                            *)
EXTENDS ChunkingCore

CONSTANTS Scripts,       \* set of sequences of cycle sizes
          Caps,          \* set of caps, None (0) = not configured
          Codecs,        \* subset of {"none", "zstd", "gzip"}
          Apis,          \* subset of {"iter", "nwt"}
          Eagers,        \* subset of BOOLEAN
          Workers, Hdr, MaxResume, MaxEvict, MaxDepth,
          MaxPos,        \* longest script (resume positions range over 1..MaxPos)
          FixCodecCap

VARIABLES cfg, srv, cli, minted, cache, last, nres, nev
vars == <<cfg, srv, cli, minted, cache, last, nres, nev>>

W0 == CHOOSE w \in Workers : TRUE
Idle == [busy |-> FALSE, w |-> W0, kind |-> "none", from |-> 0, pos |-> 0, body |-> 0, n |-> 0, lastsz |-> 0,
         hit |-> FALSE, snap |-> 0]
NoTurn == [w |-> W0, kind |-> "none", from |-> 0, n |-> 0, body |-> 0, lastsz |-> 0, fin |-> FALSE, hit |-> FALSE]

Init == /\ cfg \in [script : Scripts, cap : Caps, codec : Codecs, api : Apis, eager : Eagers]
        /\ srv = Idle /\ last = NoTurn
        /\ cli = [mode |-> "fresh", tok |-> 0, origin |-> 0, got |-> <<>>, how |-> "init"]
        /\ minted = {} /\ cache = [w \in Workers |-> FALSE] /\ nres = 0 /\ nev = 0

Hidden(kind) == ~FixCodecCap /\ cfg.codec # "none" /\ kind = "cont"
Remaining(body, kind) == IF cfg.cap = None THEN 0
                         ELSE IF SeenBy(body, Hidden(kind)) >= cfg.cap THEN 0 ELSE cfg.cap - SeenBy(body, Hidden(kind))

StartTurn(w, kind, from, hit) ==
  srv' = [busy |-> TRUE, w |-> w, kind |-> kind, from |-> from, pos |-> from, body |-> Hdr, n |-> 0, lastsz |-> 0,
          hit |-> hit, snap |-> Remaining(Hdr, kind)]

Open(w) == /\ cli.mode = "fresh" /\ ~srv.busy
           /\ StartTurn(w, "init", 0, FALSE)
           /\ cache' = [cache EXCEPT ![w] = TRUE]
           /\ UNCHANGED <<cfg, cli, minted, last, nres, nev>>

Continue(w) == /\ cli.mode = "open" /\ ~srv.busy
               /\ StartTurn(w, "cont", cli.tok, cache[w])
               /\ cache' = [cache EXCEPT ![w] = TRUE]                  \* hit: stays; miss: resolved from the call token, put
               /\ UNCHANGED <<cfg, cli, minted, last, nres, nev>>

\* the response of a finished turn reaches the client
Deliver(from, n, fin, pos) ==
  IF cfg.api = "nwt" /\ n > 1
  THEN cli' = [cli EXCEPT !.mode = "multi"]                             \* RuntimeError: more than one data batch per response
  ELSE cli' = [cli EXCEPT !.got = @ \o Ids(from, n), !.tok = IF fin THEN 0 ELSE pos,
                          !.mode = IF fin THEN "finished" ELSE "open"]

EndTurn(pos, body, n, lastsz, fin) ==
  /\ last' = [w |-> srv.w, kind |-> srv.kind, from |-> srv.from, n |-> n, body |-> body, lastsz |-> lastsz, fin |-> fin,
              hit |-> srv.hit]
  /\ srv' = Idle
  /\ minted' = IF fin THEN minted ELSE minted \cup {pos}
  /\ Deliver(srv.from, n, fin, pos)
  /\ UNCHANGED <<cfg, cache, nres, nev>>

Step ==
  /\ srv.busy
  /\ LET s == cfg.script IN
     IF srv.pos = Len(s) THEN EndTurn(srv.pos, srv.body, srv.n, srv.lastsz, TRUE)           \* process() -> finish()
     ELSE LET sz == s[srv.pos + 1]
              b2 == srv.body + sz
              p2 == srv.pos + 1 IN
          IF cfg.eager /\ p2 = Len(s) THEN EndTurn(p2, b2, srv.n + 1, sz, TRUE)             \* emit + finish in one tick
          ELSE IF cfg.cap # None /\ SeenBy(b2, Hidden(srv.kind)) < cfg.cap
               THEN /\ srv' = [srv EXCEPT !.pos = p2, !.body = b2, !.n = @ + 1, !.lastsz = sz,
                                          !.snap = Remaining(b2, srv.kind)]
                    /\ UNCHANGED <<cfg, cli, minted, cache, last, nres, nev>>
               ELSE EndTurn(p2, b2, srv.n + 1, sz, FALSE)

Resume(i, how) == /\ ~srv.busy /\ i \in minted /\ nres < MaxResume /\ cli.mode # "fresh"
                  /\ cli' = [mode |-> "open", tok |-> i, origin |-> i, got |-> <<>>, how |-> how]
                  /\ nres' = nres + 1
                  /\ UNCHANGED <<cfg, srv, minted, cache, last, nev>>

Evict(w) == /\ ~srv.busy /\ cache[w] /\ nev < MaxEvict /\ cli.mode = "open"
            /\ cache' = [cache EXCEPT ![w] = FALSE] /\ nev' = nev + 1
            /\ UNCHANGED <<cfg, srv, cli, minted, last, nres>>

Next == \/ \E w \in Workers : Open(w) \/ Continue(w) \/ Evict(w)
        \/ Step
        \/ \E i \in 1..MaxPos, how \in {"seek", "resume"} : Resume(i, how)
Spec == Init /\ [][Next]_vars

DepthBound == TLCGet("level") <= MaxDepth

\* ------------------------------------------------------------------------------------ property clauses
N == Len(cfg.script)
IsRunFrom(o, got) == got = Ids(o, Len(got)) /\ o + Len(got) <= N
Complete == cli.mode = "finished" => Len(cli.got) = N - cli.origin

\* the client iterates the script's batches, in order, whatever the cap / codec / number of turns
SameSequence == cli.origin = 0 => (IsRunFrom(0, cli.got) /\ Complete)
\* resuming from the token minted after batch i yields exactly batches i+1 .. n, on either worker, warm or cold
ResumeExact == cli.origin > 0 => (IsRunFrom(cli.origin, cli.got) /\ Complete)
\* a turn's body exceeds the cap by at most the last cycle written (framing = Hdr here; sentinel/EOS are not in body)
Overshoot == last.kind # "none" => OvershootOK(cfg.cap, last.body, Hdr, last.lastsz, last.n)

\* ------------------------------------------------------------------------------------ model sanity
Progress == last.kind # "none" => (last.n >= 1 \/ last.fin)                     \* every turn advances or ends the stream
NoCapOneBatch == (cfg.cap = None /\ last.kind # "none") => last.n <= 1           \* incremental delivery without a cap
NwtNeedsNoCap == cli.mode = "multi" => cfg.cap # None                          \* next_with_token's documented restriction
LoopAgrees == last.kind # "none" =>
                LET t == Turn(cfg.script, cfg.eager, last.from, Hdr, cfg.cap, Hidden(last.kind)) IN
                  t.n = last.n /\ t.body = last.body /\ t.fin = last.fin /\ t.last = last.lastsz
SnapshotSound == srv.busy => (srv.snap <= cfg.cap /\ (cfg.cap # None /\ ~Hidden(srv.kind) => srv.snap + srv.body >= cfg.cap))
TokensAreTurnEnds == \A i \in minted : i \in 1..N
=========================================================================================
