----------------------------------- MODULE Url -----------------------------------
(* C37 -- where does a browser go?  A reference model of the slice of the WHATWG URL parser
   (https://url.spec.whatwg.org/#concept-basic-url-parser) that determines the ORIGIN of a navigation
   to a string, resolved against the service's own (special-scheme) URL, plus the session-cookie table.

   Strings are sequences of TOKENS.  A token is either one delimiter character or an atomic run of
   letters/digits with a fixed meaning (the driver concretises each token into several spellings):

       ":"  "/"  "@"  "?"  "#"  "."  "["  "]"          the delimiters themselves
       "B"   the backslash character (a token name of its own: a TLC cfg file cannot spell a backslash string)
       "%"   a percent-escape of a delimiter (%2F %5C %40 %3A %23 %3F)   -- never a delimiter
       "T"   ASCII tab / LF / CR          (removed everywhere before parsing)
       "S"   space         "C"   another C0 control        (stripped at both ends only)
       "H"   the letters  http        "Hs"  the letters  https
       "l"   localhost     "i"  127.0.0.1     "a"  the operator's own (custom) host name     "e"  a foreign host name
       "d"   the host name of the library's BUILT-IN default return origin (used only when no list was configured)
       "x"   some other letters (never completes http->https)    "P"  the service prefix name (letters)
       "6"   the text ::1 (only generated right after "[")
       "8"   the digits 8443          "-"  a hyphen (a host / scheme character like any letter)

   Ref(s) follows the parser state by state (scheme start / scheme / no scheme / special relative or
   authority / special authority (ignore) slashes / relative / relative slash / authority / host /
   port).  Its result is DELIBERATELY three-valued: a definite class, "failure" (the parser returns
   failure: no navigation), or "uncertain" (outside the modelled slice: IPv4 numbers, IPv6 literals,
   empty labels, *.localhost, trailing-dot names).  The oracle is ONE-SIDED: only a definite "foreign"
   is ever held against the implementation.                                                         *)
EXTENDS Naturals, Sequences, FiniteSets

CONSTANTS FlatAlphabet, FlatLen,      \* every string over FlatAlphabet up to FlatLen (both roles' scheme machinery)
          TailAlphabet, TailLen,      \* every tail over TailAlphabet up to TailLen, behind each authority-introducing prefix
          PrefixSchemes, PrefixSlashes, \* authority-introducing prefixes <<scheme, ":", a, b>>, a and b \in PrefixSlashes
          HostLen,                    \* every host over HostAlphabet up to HostLen behind scheme://
          LeadLen,                    \* every run over LeadSet up to LeadLen between "/" (or "scheme:") and a host name
          BaseScheme                  \* scheme of the service URL the browser resolves against: "H" or "Hs"

AllTokens == {":", "/", "B", "@", "?", "#", ".", "-", "[", "]", "%", "T", "S", "C", "H", "Hs", "l", "i", "a", "d", "e", "x", "P", "8"}

Slash      == {"/", "B"}                       \* equivalent for special schemes
StripSet   == {"S", "C", "T"}                   \* C0 control or space (tab/LF/CR are C0 controls too)
AlphaStart == {"H", "Hs", "l", "a", "d", "e", "x", "P"}
SchemeChar == AlphaStart \cup {"8", "i", ".", "-"}   \* ASCII alphanumeric, "+", "-", "."
AuthorityEnd == {"/", "B", "?", "#"}           \* for special schemes the backslash ends the authority too
DomainTok  == {"H", "Hs", "l", "a", "d", "e", "x", "P", ".", "-", "8", "i"}   \* letters, digits, hyphen, dot

Min(I) == CHOOSE i \in I : \A j \in I : i <= j
Max(I) == CHOOSE i \in I : \A j \in I : i >= j
FirstIn(s, S) == LET I == {i \in 1..Len(s) : s[i] \in S} IN IF I = {} THEN 0 ELSE Min(I)
LastIn(s, S)  == LET I == {i \in 1..Len(s) : s[i] \in S} IN IF I = {} THEN 0 ELSE Max(I)
FirstNotIn(s, S) == LET I == {i \in 1..Len(s) : s[i] \notin S} IN IF I = {} THEN 0 ELSE Min(I)
From(s, i) == SubSeq(s, i, Len(s))
Has(s, S) == \E i \in 1..Len(s) : s[i] \in S

\* ---------------------------------------------------------------- preprocessing
\* 1. strip leading and trailing C0-control-or-space   2. remove all ASCII tab or newline
StripEnds(s) == LET I == {i \in 1..Len(s) : s[i] \notin StripSet} IN IF I = {} THEN <<>> ELSE SubSeq(s, Min(I), Max(I))
Clean(s) == SelectSeq(StripEnds(s), LAMBDA t : t # "T")

\* ---------------------------------------------------------------- host / port
(* "ends in a number" (URL Standard, host parsing): only the LAST label decides whether the IPv4 parser runs.  The last
   label is numeric iff, reading the host backwards (one trailing dot ignored), a run of digit tokens reaches the start,
   a dot, or the token "i" (whose own last label is the digit 1).  127.0.0.1.evil.example is a DOMAIN.               *)
NoTrailingDot(h) == IF h # <<>> /\ h[Len(h)] = "." THEN SubSeq(h, 1, Len(h) - 1) ELSE h
RECURSIVE DigitsBack(_, _)
DigitsBack(g, k) == IF k = 0 THEN TRUE
                    ELSE IF g[k] = "8" THEN DigitsBack(g, k - 1)
                    ELSE g[k] \in {"i", "."}
LastLabelNumeric(h) == LET g == NoTrailingDot(h) IN
                         g # <<>> /\ (g[Len(g)] = "i" \/ (g[Len(g)] = "8" /\ DigitsBack(g, Len(g) - 1)))
HostClass(h) ==
  IF h = <<>> THEN "failure"                                       \* host-missing
  ELSE IF Has(h, {"S", "C", "%"}) THEN "failure"                   \* forbidden host code point (after percent-decoding)
  ELSE IF Has(h, {"[", "]"}) THEN "uncertain"                      \* IPv6 literal or failure
  ELSE IF h = <<"l">> \/ h = <<"i">> THEN "loopback"
  ELSE IF LastLabelNumeric(h) THEN "uncertain"                     \* IPv4 parser: some address, or failure
  ELSE IF ~(\A k \in 1..Len(h) : h[k] \in DomainTok) THEN "uncertain"
  ELSE IF h[1] = "." \/ (\E k \in 1..(Len(h) - 1) : h[k] = "." /\ h[k + 1] = ".") THEN "uncertain"   \* empty label
  ELSE IF h[Len(h)] = "." THEN (IF Len(h) >= 2 /\ h[Len(h) - 1] \in {"l", "a", "d"} THEN "uncertain" ELSE "domain")
  ELSE IF Len(h) >= 2 /\ h[Len(h)] = "l" /\ h[Len(h) - 1] = "." THEN "uncertain"                     \* *.localhost
  ELSE "domain"                                                    \* a definite name that is none of ours:
                                                                   \* localhost.evil.example, 127.0.0.1.evil.example, evil-localhost ...

PortClass(p) ==
  IF p = <<>> THEN "default"
  ELSE IF p = <<"8">> THEN "p8443"
  ELSE "failure"                                                   \* non-digit, or digits beyond 65535

(* IPv6 literals.  "6" is the text ::1 and only ever appears right after "[" (Ref is "uncertain" otherwise).  A host that
   starts with "[" must end with "]" (then an optional ":port"); [::1] is loopback, [::1:8443], [::1:8443:8443] ... are
   valid addresses that are NOT loopback; every other bracket content stays uncertain.                                 *)
RECURSIVE Groups(_)
Groups(g) == g = <<>> \/ (Len(g) >= 2 /\ g[1] = ":" /\ g[2] = "8" /\ Groups(From(g, 3)))
Bracketed(hp) ==
  IF hp[1] # "[" THEN "uncertain"                                  \* "[" / "]" inside a name: forbidden host code point
  ELSE LET rb == FirstIn(hp, {"]"}) IN
       IF rb = 0 THEN "failure"                                    \* unclosed literal
       ELSE LET inside == SubSeq(hp, 2, rb - 1)
                after  == From(hp, rb + 1)
            IN IF after # <<>> /\ after[1] # ":" THEN "failure"    \* text after "]" : the host does not end with "]"
               ELSE IF after # <<>> /\ PortClass(From(after, 2)) = "failure" THEN "failure"
               ELSE IF inside = <<"6">> THEN "loopback"
               ELSE IF Len(inside) >= 3 /\ Len(inside) <= 13 /\ inside[1] = "6" /\ Groups(From(inside, 2)) THEN "foreign"
               ELSE "uncertain"

(* THE ALLOWLIST CONFIGURATION.  What the deployment passed as allowed_return_origins decides which origins besides
   loopback may receive a redirect.  The built-in default origin https://<d> counts ONLY when nothing was configured
   ("default" = None); an explicit list -- even the empty one -- replaces it.
     "default"   None                       -> { https://<d> }
     "empty"     frozenset()                -> { }                      loopback only
     "noport"    { https://<a> }            "port"  { https://<a>:8443 }
     "both"      { https://<a>, https://<d> }        the default origin listed explicitly
     "lookalike" { https://<a>.<e> }        the operator really owns a name that merely starts like <a>; <a> itself is NOT listed
     "http_a"    { http://<a> }             a plain-http origin
     "slash" { "https://<a>/" }  "upper" { "HTTPS://<A>" }   sloppy spellings of https://<a>: read GENEROUSLY (as "noport"),
                                            so that honouring them or not are both admissible under the one-sided oracle   *)
AllCfgs == {"default", "empty", "noport", "port", "both", "lookalike", "http_a", "slash", "upper"}
AllowList(al) ==
  CASE al = "default"   -> {<<"Hs", <<"d">>, "default">>}
    [] al = "empty"     -> {}
    [] al \in {"noport", "slash", "upper"} -> {<<"Hs", <<"a">>, "default">>}
    [] al = "port"      -> {<<"Hs", <<"a">>, "p8443">>}
    [] al = "both"      -> {<<"Hs", <<"a">>, "default">>, <<"Hs", <<"d">>, "default">>}
    [] al = "lookalike" -> {<<"Hs", <<"a", ".", "e">>, "default">>}
    [] al = "http_a"    -> {<<"H", <<"a">>, "default">>}
Origin(scheme, hp, al) ==
  LET c  == FirstIn(hp, {":"})
      h  == IF c = 0 THEN hp ELSE SubSeq(hp, 1, c - 1)
      p  == IF c = 0 THEN <<>> ELSE From(hp, c + 1)
      hc == HostClass(h)
      pc == PortClass(p)
  IN IF Has(hp, {"[", "]"}) THEN Bracketed(hp)
     ELSE IF hc = "failure" \/ pc = "failure" THEN "failure"
     ELSE IF hc = "uncertain" THEN "uncertain"
     ELSE IF hc = "loopback" THEN "loopback"
     ELSE IF <<scheme, h, pc>> \in AllowList(al) THEN "allowed"
     ELSE "foreign"

\* authority state .. host state .. port state, entered with every leading slash already skipped
Authority(scheme, r, al) ==
  LET e    == FirstIn(r, AuthorityEnd)
      auth == IF e = 0 THEN r ELSE SubSeq(r, 1, e - 1)
      at   == LastIn(auth, {"@"})
      hp   == IF at = 0 THEN auth ELSE From(auth, at + 1)
  IN IF at # 0 /\ hp = <<>> THEN "failure" ELSE Origin(scheme, hp, al)

SkipSlashes(r) == LET k == FirstNotIn(r, Slash) IN IF k = 0 THEN <<>> ELSE From(r, k)

\* relative state / relative slash state (base URL is special, so "\" counts as "/")
Relative(r, al) ==
  IF Len(r) >= 2 /\ r[1] \in Slash /\ r[2] \in Slash THEN Authority(BaseScheme, SkipSlashes(r), al)
  ELSE "same"

\* scheme start state / scheme state / no scheme state
SchemeEnd(u) == FirstNotIn(u, SchemeChar)        \* index of the first token that is not a scheme character
HasScheme(u) == u # <<>> /\ u[1] \in AlphaStart /\ SchemeEnd(u) # 0 /\ u[SchemeEnd(u)] = ":"

Lone6(s) == \E i \in 1..Len(s) : s[i] = "6" /\ (i = 1 \/ s[i - 1] # "[")
Ref(s, al) ==
  LET u == Clean(s) IN
  IF Lone6(s) THEN "uncertain"
  ELSE IF ~HasScheme(u) THEN Relative(u, al)
  ELSE LET k      == SchemeEnd(u)
           scheme == SubSeq(u, 1, k - 1)
           rest   == From(u, k + 1)
       IN IF scheme # <<"H">> /\ scheme # <<"Hs">> THEN "opaque"             \* not a special scheme: no http(s) origin
          ELSE IF scheme = <<BaseScheme>> /\ ~(Len(rest) >= 2 /\ rest[1] = "/" /\ rest[2] = "/")
               THEN Relative(rest, al)                                       \* special relative or authority state
          ELSE Authority(scheme[1], SkipSlashes(rest), al)                   \* special authority (ignore) slashes state

Kinds == {"same", "loopback", "allowed", "foreign", "failure", "uncertain", "opaque"}

\* ---------------------------------------------------------------- case space
RECURSIVE StrUpTo(_, _)
StrUpTo(A, n) == IF n = 0 THEN {<<>>}
                 ELSE LET prev == StrUpTo(A, n - 1) IN prev \cup {Append(s, ch) : s \in prev, ch \in A}

Insert(s, i, ch) == SubSeq(s, 1, i) \o <<ch>> \o SubSeq(s, i + 1, Len(s))
Delete(s, i) == SubSeq(s, 1, i - 1) \o SubSeq(s, i + 1, Len(s))
Replace(s, i, ch) == [s EXCEPT ![i] = ch]
Neighbours(s) == {Insert(s, i, ch) : i \in 0..Len(s), ch \in AllTokens}
            \cup {Delete(s, i) : i \in 1..Len(s)}
            \cup {Replace(s, i, ch) : i \in 1..Len(s), ch \in AllTokens} \cup {s}

RtSeeds == { <<"H", ":", "/", "/", "l", ":", "8", "/", "x", "?", "x", "#", "x">>,
             <<"Hs", ":", "/", "/", "a", "/", "x">>,
             <<"Hs", ":", "/", "/", "a", ":", "8", "/", "x">>,
             <<"H", ":", "/", "/", "x", ":", "x", "@", "l", "/">>,
             <<"Hs", ":", "/", "/", "e", "/", "x">> }
OrigSeeds == { <<"/", "P", "/", "x", "?", "x">>, <<"/", "x", "/", "x", "?", "x", "#", "x">>, <<"/", "P">> }

RtPrefixes == {<<sc, ":", a, b>> : sc \in PrefixSchemes, a \in PrefixSlashes, b \in PrefixSlashes}
RtCfgs   == {"noport", "port"}     \* the two configurations every (large) string family is crossed with
OrigCfgs == {"root", "vgi"}        \* the service prefix: "" | "/" \o P

(* role "rt"  : s is a _vgi_return_to value,   cfg \in RtCfgs
   role "orig": s is a request path(+query) as the server sees it (always starts with "/"), cfg \in OrigCfgs
   The case space is the union of the six families below.  (They take a dummy parameter and are enumerated as
   separate disjuncts of the initial predicate: TLC pre-evaluates and deep-normalises zero-arity constant
   definitions and its UNION / \cup of large un-normalised sets is quadratic -- 12 minutes instead of 10 seconds.) *)
Rt(S)   == {[role |-> "rt", cfg |-> al, s |-> s] : al \in RtCfgs, s \in S}
Orig(S) == {[role |-> "orig", cfg |-> p, s |-> s] : p \in OrigCfgs, s \in S}
RtFlat(d)    == Rt(StrUpTo(FlatAlphabet, FlatLen))
RtTails(d)   == Rt({p \o t : p \in RtPrefixes, t \in StrUpTo(TailAlphabet, TailLen)})
RtNeigh(d)   == Rt(UNION {Neighbours(s) : s \in RtSeeds})
OrigFlat(d)  == Orig({<<"/">> \o t : t \in StrUpTo(FlatAlphabet, FlatLen)})
OrigTails(d) == Orig({<<"/">> \o t : t \in StrUpTo(TailAlphabet, TailLen)})
OrigNeigh(d) == Orig({s \in UNION {Neighbours(x) : x \in OrigSeeds} : s # <<>> /\ s[1] = "/"})
(* the "leading run" families: what sits between the first "/" (or "scheme:") and a host name decides whether a browser
   reads an authority -- slashes, backslashes and the characters a browser ignores there (tab/newline anywhere, C0/space
   at the very start), in every order.  Small, so they are part of every tier (a validator that forgets interior
   tab/newline removal -- "/" TAB "\" host -- is only visible here or with "T" in the tail alphabet).               *)
LeadSet == {"/", "B", "T", "S", "C"}
Leads == StrUpTo(LeadSet, LeadLen)
OrigLead(d) == Orig({<<"/">> \o w \o <<h>> \o t : w \in Leads, h \in {"e", "l"}, t \in {<<>>, <<"/", "x">>}})
RtLead(d)   == Rt({<<sc, ":">> \o w \o <<h>> : sc \in {"H", "Hs"}, w \in Leads, h \in {"e", "l", "a"}})
(* the "host look-alike" family: every host spelled from loopback names, the allowlisted name, a foreign name, other
   letters, digits, dots and hyphens -- localhost.evil.example, 127.0.0.1.evil.example, 127.evil.example, evil-localhost,
   <allowlisted>.evil.example, evil.example.<allowlisted> ... -- behind http:// and https://, bare or followed by a path *)
HostAlphabet == {"l", "i", "a", "e", "x", ".", "-", "8"}
RtHosts(d) == Rt({<<sc, ":", "/", "/">> \o h \o t : sc \in {"H", "Hs"}, h \in StrUpTo(HostAlphabet, HostLen) \ {<<>>},
                                                    t \in {<<>>, <<"/", "x">>}})
(* the "authority shape" family: every combination of userinfo (none, user, user:password, user:digits, :password, user:,
   two "@"), host, port (none, digits, empty) and what follows (nothing, path, backslash path, fragment that looks like
   userinfo) -- the 5..9-token shapes the length-bounded tails do not reach, e.g. localhost:x@evil / a:8@e / e#@l        *)
Names == {"l", "e", "a"}
UserInfos == {<<>>} \cup {<<u, "@">> : u \in Names} \cup {<<u, ":", p, "@">> : u \in Names, p \in Names}
             \cup {<<u, ":", "8", "@">> : u \in Names} \cup {<<":", p, "@">> : p \in Names} \cup {<<u, ":", "@">> : u \in Names}
             \cup {<<u, "@", v, "@">> : u \in Names, v \in Names} \cup {<<u, "%", "@">> : u \in Names}
AfterAuth == {<<>>, <<"/", "x">>, <<"B", "x">>, <<"#", "@", "l">>, <<"?", "@", "l">>, <<"B", "@", "l">>}
RtAuth(d) == Rt({<<sc, ":", "/", "/">> \o ui \o <<h>> \o po \o t :
                   sc \in {"H", "Hs"}, ui \in UserInfos, h \in {"l", "e", "a", "i"}, po \in {<<>>, <<":", "8">>, <<":">>}, t \in AfterAuth})
\* IPv6 literal shapes
V6Hosts == { <<"[", "6", "]">>, <<"[", "6", ":", "8", "]">>, <<"[", "6", "]", ":", "8">>, <<"[", "6", ":", "8", "]", ":", "8">>,
             <<"[", "6">>, <<"[", "6", "]", "e">>, <<"[", "6", "]", ".", "e">>, <<"e", "[", "6", "]">>, <<"e", "@", "[", "6", "]">>,
             <<"[", "6", "]", "@", "e">>, <<"[", "e", "]">>, <<"[", "]">>, <<"[", "6", ":", "8", ":", "8", "]">>, <<"[", "6", "]", "B", "@", "e">>,
             <<"[", "6", "]", ":", "e">>, <<"[", "6", "%", "]">> }
RtV6(d) == Rt({<<sc, ":", "/", "/">> \o h \o t : sc \in {"H", "Hs"}, h \in V6Hosts, t \in {<<>>, <<"/", "x">>}})
(* the "configuration x target" family: EVERY allowlist configuration crossed with return targets at the default origin, at
   the custom origin, at loopback, at a foreign host and at look-alikes of each, with and without userinfo / port / path *)
TargetHosts == {<<"d">>, <<"a">>, <<"l">>, <<"i">>, <<"e">>, <<"a", ".", "e">>, <<"d", ".", "e">>, <<"e", ".", "d">>, <<"e", ".", "a">>,
                <<"d", "-", "e">>, <<"a", ".", "d">>}
RtTargets(d) == {[role |-> "rt", cfg |-> al, s |-> <<sc, ":", "/", "/">> \o ui \o h \o po \o t] :
                   al \in AllCfgs, sc \in {"H", "Hs"}, ui \in {<<>>, <<"e", "@">>, <<"d", "@">>, <<"a", "@">>}, h \in TargetHosts,
                   po \in {<<>>, <<":", "8">>}, t \in {<<>>, <<"/", "x">>}}
Cases(d) == UNION {RtFlat(d), RtTails(d), RtNeigh(d), RtLead(d), RtHosts(d), RtAuth(d), RtV6(d), RtTargets(d),
                   OrigFlat(d), OrigTails(d), OrigNeigh(d), OrigLead(d)}
CaseFamilies == <<"RtFlat", "RtTails", "RtNeigh", "RtLead", "RtHosts", "RtAuth", "RtV6", "RtTargets", "OrigFlat", "OrigTails", "OrigNeigh", "OrigLead">>

Al(c) == IF c.role = "rt" THEN c.cfg ELSE "noport"
Expected(c) == [kind |-> Ref(c.s, Al(c))]

\* ---------------------------------------------------------------- sanity of the reference model itself
KindTotal(c) == Ref(c.s, Al(c)) \in Kinds
\* tab/newline anywhere and C0/space at the ends never change the verdict
WhitespaceInvisible(c) == /\ Ref(<<"T">> \o c.s, Al(c)) = Ref(c.s, Al(c))
                          /\ Ref(c.s \o <<"S">>, Al(c)) = Ref(c.s, Al(c))
                          /\ Ref(<<"C", "S">> \o c.s, Al(c)) = Ref(c.s, Al(c))
                          /\ (Len(c.s) >= 2 => Ref(Insert(c.s, 1, "T"), Al(c)) = Ref(c.s, Al(c)))
\* for special schemes a backslash is a slash
BackslashIsSlash(c) == Ref([k \in 1..Len(c.s) |-> IF c.s[k] = "B" THEN "/" ELSE c.s[k]], Al(c)) = Ref(c.s, Al(c))
\* a fragment never changes the origin (what the flow appends: "#token=..." / "&token=...")
FragmentIrrelevant(c) == (c.s = <<>> \/ c.s[Len(c.s)] \notin StripSet) => Ref(c.s \o <<"#", "x">>, Al(c)) = Ref(c.s, Al(c))
\* a string that starts with one slash followed by a non-slash stays on the service's origin
PathAbsoluteStays(c) == (Len(c.s) >= 2 /\ c.s[1] = "/" /\ c.s[2] \notin Slash \cup StripSet) => Ref(c.s, Al(c)) = "same"
\* a percent-escape is never a delimiter: replacing it by a plain letter run keeps the class unless it was in the host
EscapeIsNoDelimiter(c) == LET r == [k \in 1..Len(c.s) |-> IF c.s[k] = "%" THEN "x" ELSE c.s[k]]
                          IN Ref(c.s, Al(c)) \in {Ref(r, Al(c)), "failure", "opaque"} \/ Ref(r, Al(c)) = "opaque"

\* ---------------------------------------------------------------- judging the implementation
(* observation o (one per validation / redirect the real code performed):
     via       "validate" (the validator called directly) | "fastpath" | "callback" (a real 302 of the flow)
     accepted  the implementation let the value through: the validator returned it / the Location header is it
     loc       the abstract token string of what the browser is sent to when accepted (the value itself, or the
               value with the flow's "#token=..." / "&token=..." suffix); <<>> when not accepted
     fallback  (orig only) the validator substituted the service root                                        *)
Fail(name, ok) == IF ok THEN {} ELSE {name}
Conforms(c, o) ==
       Fail("RedirectTargetSafe", o.accepted => Ref(o.loc, Al(c)) # "foreign")

\* ================================================================ the session-cookie half
(* The callback completes (exchanges the code / hands out a token) only with an untampered, unexpired
   session cookie whose state equals the state parameter.
     mut   what was done to the cookie the server minted:
           "none" | "payload_byte" | "mac_byte" (one byte changed, every position) | "truncated" | "extended"
           | "wrong_key" (re-signed with another key) | "stream_key" (signed with the un-derived token key)
           | "garbage" | "absent" | "reencoded" (different text, SAME bytes: not tampering)
     age   "fresh" (0s) | "mid" | "edge_in" (max-1) | "edge" (=max; either verdict) | "edge_out" (max+1) | "old"
           | "future" (minted later than now, e.g. clock skew between workers: not expired, either verdict)
     st    "match" | "differs" | "prefix" | "extended" | "case" | "absent"                                   *)
CookieMuts   == {"none", "payload_byte", "mac_byte", "truncated", "extended", "wrong_key", "stream_key", "garbage",
                 "absent", "reencoded"}
CookieAges   == {"fresh", "mid", "edge_in", "edge", "edge_out", "old", "future"}
CookieStates == {"match", "differs", "prefix", "extended", "case", "absent"}
CookieFlows  == {"same_origin", "external"}
CookieCases == {[mut |-> m, age |-> a, st |-> s, flow |-> f] : m \in CookieMuts, a \in CookieAges, s \in CookieStates, f \in CookieFlows}

Untampered(c) == c.mut \in {"none", "reencoded"}
Unexpired(c)  == c.age \in {"fresh", "mid", "edge_in", "edge", "future"}
StateOk(c)    == c.st = "match"
MayComplete(c)  == Untampered(c) /\ Unexpired(c) /\ StateOk(c)
MustComplete(c) == MayComplete(c) /\ c.age \notin {"edge", "future"} /\ c.mut = "none"          \* not part of the statement; used as a harness sanity fact only
CookieExpected(c) == [may |-> MayComplete(c), must |-> MustComplete(c)]

CookieSane(c) == (MustComplete(c) => MayComplete(c)) /\ (c.mut = "absent" => ~MayComplete(c))

(* observation: exchanged = the code (and the PKCE verifier) was sent to the token endpoint;
                delivered = a token left the server (auth cookie set, or token in the Location fragment);
                status    = HTTP status of the callback response                                        *)
CookieConforms(c, o) ==
       Fail("CompletesOnlyWithValidCookie", (o.exchanged \/ o.delivered \/ o.status = 302) => MayComplete(c))
=====================================================================================
