"""C40 -- capability headers advertise exactly the configuration.  Spec: spec/httpgate/Caps.tla."""
import logging
import os
import warnings
from datetime import datetime, timezone

from vf.core import Ctx
from vf.tlc import MachineryError

from drivers import _httpgate_util as U

META = {
    "engine": "httpgate",
    "text": "TLC enumerates every configuration vector (12 capability switches, 9216 configurations, each built in an "
            "environment -- URL prefix, CORS, human-facing pages -- tied to the switches so that every (environment, "
            "switch) pair takes all value combinations, proved by TLC -- and SPELLED in one of the accepted ways: entry point "
            "make_wsgi_app / make_sync_client / serve_http, response cap through the deprecated alias "
            "max_stream_response_bytes, off settings omitted vs passed explicitly, compression_level omitted/1/3/22, "
            "sticky_default_ttl omitted/float/int, limits of 0 (coverage of the spellings also proved by TLC); quick tier: the 1152-configuration slice auth on / "
            "maxResp=maxExt / proof=intro, 9 route kinds) x every applicable route kind (thorough: 25, incl. an "
            "authenticator crash -> 500, authority outage -> 503, CORS preflight, a path outside the prefix) "
            "with the header set the capability table demands; the driver builds one real app per configuration with "
            "make_wsgi_app (concrete limits/TTL/echo names drawn per configuration), issues a real request of every "
            "route kind (success, RPC error, 400, 401, 404 method, 404 page, 405, 413, 415, stream init/continuation, "
            "OPTIONS/HEAD/GET health, landing page, introspection route, session delete, upload-url), records all "
            "response headers plus what http_capabilities() reads back, and TLC judges every observation with "
            "Caps!Conforms (present iff configured, configured value, nothing extra, no duplicates, probe read-back).",
    "note": "Trusted: Caps.tla's transcription of the capability table in docs/WIRE_PROTOCOL.md; the list of VGI-* "
            "response headers that are documented as per-response (not capability) headers; TTLs are integral seconds. "
            "HttpServerCapabilities has no field for proof-required / token-introspection, so the read-back clause "
            "covers the eleven fields it has.",
}

HEADER = {
    "maxreq": "VGI-Max-Request-Bytes", "maxresp": "VGI-Max-Response-Bytes",
    "maxext": "VGI-Max-Externalized-Response-Bytes", "extenabled": "VGI-Externalization-Enabled",
    "encodings": "VGI-Supported-Encodings", "upload": "VGI-Upload-URL-Support", "maxupload": "VGI-Max-Upload-Bytes",
    "proof": "VGI-Proxy-Proof-Required", "sticky": "VGI-Sticky-Enabled", "ttl": "VGI-Sticky-Default-TTL",
    "echo": "VGI-Sticky-Echo-Headers", "introspect": "VGI-Token-Introspection",
}
# documented per-response headers of the VGI- family (docs/WIRE_PROTOCOL.md "Response headers")
NOT_CAPABILITY = ("vgi-auth-reason", "vgi-auth-proxy-required", "vgi-session", "vgi-session-close")

class _Storage:
    def upload(self, data, schema, *, content_encoding=None):
        return "https://storage.invalid/obj"


class _Provider:
    def generate_upload_url(self, schema):
        from vgi_rpc.external import UploadUrl
        return UploadUrl(upload_url="https://storage.invalid/put", download_url="https://storage.invalid/get",
                         expires_at=datetime(2030, 1, 1, tzinfo=timezone.utc))


def _authenticate(req):
    from vgi_rpc.http import AuthUnavailableError
    from vgi_rpc.rpc import AuthContext
    h = req.get_header("Authorization")
    if h == "Bearer ok":
        return AuthContext(domain="test", authenticated=True, principal="alice")
    if h == "Bearer crash":
        raise RuntimeError("bug inside the authenticate callback")
    if h == "Bearer down":
        raise AuthUnavailableError("identity provider unreachable")
    raise ValueError("missing or bad credential")


def _resolver(token):
    return None


ECHO_SETS = [{"fly-force-instance-id": "m1"}, {"X-Worker-Affinity": "w7", "x-shard": "3"}, {"A": "1", "b": "2", "C-d": "3"}]


def draw_vals(rng) -> dict:
    # 0 is a configured value too (not "unset"): the header must say 0
    big = lambda: rng.choice([rng.randrange(200_000, 2_000_000), rng.randrange(1 << 31, 1 << 40), 1 << 31, (1 << 53) - 1, 0])
    any_ = lambda: rng.choice([0, 1, rng.randrange(2, 1 << 20), rng.randrange(1 << 31, 1 << 45)])
    return {"maxReq": big(), "maxResp": big(), "maxExt": any_(), "maxUpload": any_(),
            "ttl": rng.choice([1, 60, 300, 86400, rng.randrange(2, 100000)]), "echo": rng.choice(ECHO_SETS)}


def build(cfg: dict, vals: dict, servers: dict):
    """Build the app the way the configuration is SPELLED: entry point, deprecated alias, omitted vs explicit
    'off' values, compression-level and TTL spellings (Caps.tla: entry / respAlias / explicitOff / compSpell / ttlSpell)."""
    import contextlib
    import io

    from vgi_rpc.http.server import make_wsgi_app

    server = servers[cfg["ext"]]
    entry = cfg["entry"]
    explicit = cfg["explicitOff"] or entry == "sync"
    kw: dict = {"token_key": b"k" * 32}

    def setting(on: bool, key: str, value, off=None, serve_has: bool = True):
        if entry == "serve" and not serve_has:
            if on:
                raise MachineryError(f"serve_http cannot express {key}")
            return
        if on:
            kw[key] = value
        elif explicit:
            kw[key] = off

    setting(cfg["maxReq"], "max_request_bytes", vals["maxReq"])
    if cfg["maxResp"]:
        kw["max_stream_response_bytes" if cfg["respAlias"] else "max_response_bytes"] = vals["maxResp"]
    elif explicit:
        kw["max_response_bytes"] = None
    setting(cfg["maxExt"], "max_externalized_response_bytes", vals["maxExt"])
    setting(cfg["upload"], "upload_url_provider", _Provider(), serve_has=False)
    setting(cfg["maxUpload"], "max_upload_bytes", vals["maxUpload"], serve_has=False)
    if cfg["comp"] == "none":
        kw["compression_level"] = None
    elif cfg["compSpell"] != "default":
        kw["compression_level"] = int(cfg["compSpell"])
    if cfg["sticky"]:
        kw["enable_sticky"] = True
        if cfg["ttlSpell"] == "float":
            kw["sticky_default_ttl"] = float(vals["ttl"])
        elif cfg["ttlSpell"] == "int":
            kw["sticky_default_ttl"] = int(vals["ttl"])
    elif explicit:
        kw["enable_sticky"] = False
    setting(cfg["echo"], "sticky_echo_headers", dict(vals["echo"]), off=(None if cfg["proof"] else {}))
    setting(cfg["proof"], "proxy_proof_required", True, off=False)
    if cfg["intro"]:
        kw["introspect_resolver"] = _resolver
        kw["introspect_principals"] = [["proxy"], ("proxy",), frozenset({"proxy"})][vals["maxExt"] % 3]
    elif explicit:
        kw["introspect_resolver"] = None
    if cfg["auth"]:
        kw["authenticate"] = _authenticate
    if cfg["prefix"]:
        kw["prefix"] = "/vgi"
    if cfg["cors"]:
        kw["cors_origins"] = "*"
    if not cfg["pages"]:
        kw.update(enable_not_found_page=False, enable_landing_page=False, enable_describe_page=False)
    old = os.environ.pop("VGI_HTTP_DISABLE_ZSTD", None)
    if cfg["comp"] == "g":
        os.environ["VGI_HTTP_DISABLE_ZSTD"] = "1"
    try:
        if entry == "wsgi":
            return make_wsgi_app(server, **kw)
        if entry == "sync":
            from vgi_rpc.http._testing import make_sync_client
            return make_sync_client(server, **kw)._client.app
        # serve_http: let it build its app, capture what it hands to waitress instead of serving
        import waitress

        from vgi_rpc.http.server import serve_http
        captured: list = []
        real_serve = waitress.serve
        waitress.serve = lambda app, **_kw: captured.append(app)
        try:
            with contextlib.redirect_stdout(io.StringIO()), contextlib.redirect_stderr(io.StringIO()):
                serve_http(server, install_signal_handlers=False, **kw)
        finally:
            waitress.serve = real_serve
        if len(captured) != 1:
            raise MachineryError("serve_http did not hand an app to waitress")
        return captured[0]
    finally:
        os.environ.pop("VGI_HTTP_DISABLE_ZSTD", None)
        if old is not None:
            os.environ["VGI_HTTP_DISABLE_ZSTD"] = old


def split_list(v: str) -> list:
    return [x.strip() for x in v.split(",") if x.strip()]


def headers_obs(hd: list) -> tuple[dict, list]:
    h = {}
    for hid, name in HEADER.items():
        vals = U.hall(hd, name)
        raw = vals[0] if vals else ""
        h[hid] = {"n": len(vals), "v": raw, "l": split_list(raw) if hid in ("encodings", "echo") else []}
    known = {n.lower() for n in HEADER.values()}
    unknown = sorted({k for k, _ in hd if k.lower().startswith("vgi-") and k.lower() not in known
                      and k.lower() not in NOT_CAPABILITY and not k.lower().startswith("vgi-echo-")})
    return h, unknown


EMPTY_PROBE = {"maxReq": "none", "maxResp": "none", "maxExt": "none", "maxUpload": "none", "ttl": "none",
               "ext": False, "upload": False, "sticky": False, "encodings": [], "echo": []}


def probe(app, prefix: str = "") -> dict:
    from vgi_rpc.http import http_capabilities
    from vgi_rpc.http._testing import _SyncTestClient

    caps = http_capabilities(client=_SyncTestClient(app, prefix=prefix))
    s = lambda x: "none" if x is None else str(x)
    return {"maxReq": s(caps.max_request_bytes), "maxResp": s(caps.max_response_bytes),
            "maxExt": s(caps.max_externalized_response_bytes), "maxUpload": s(caps.max_upload_bytes),
            "ttl": s(caps.sticky_default_ttl), "ext": bool(caps.externalization_enabled),
            "upload": bool(caps.upload_url_support), "sticky": bool(caps.sticky_enabled),
            "encodings": [e.value for e in caps.supported_encodings], "echo": list(caps.sticky_echo_headers)}


def run(ctx: Ctx) -> None:
    warnings.filterwarnings("ignore")
    logging.disable(logging.CRITICAL)
    from vgi_rpc.external import ExternalLocationConfig

    consts = {"Slice": "quick" if ctx.quick else "full"}
    invs = ["AlwaysTwo", "RouteIndependent", "UploadBytesNeedsProvider", "StickyFamily", "EmittedOnlyFromTable",
            "ApplicableCase", "EnvironmentIndependent", "SpellingIndependent"]
    cases = U.enumerate_split(ctx, "httpgate", "Caps", constants=consts, invariants=invs)
    ctx.exhaustive = True
    ctx.rule = ("case = (configuration vector of 12 switches, route kind), all enumerated by TLC from Caps!Cases; one "
                "real app per configuration; non-trivial = distinct (configuration, concrete values, route) requests "
                "executed; responses of one configuration with identical capability headers are judged by TLC as one "
                "observation that lists the route kinds it stands for. Capability table = docs/WIRE_PROTOCOL.md "
                "'Capability discovery'.")
    ctx.assume("concrete limits are drawn per configuration (including 0, 2^31, 2^53-1); TTLs are integral seconds",
               "VGI-Auth-Reason, VGI-Auth-Proxy-Required, VGI-Session, VGI-Session-Close, VGI-Echo-* are per-response "
               "headers, every other VGI-* response header counts as a capability header",
               "quick tier: Slice=quick (auth configured, maxResp=maxExt, proof=intro: 1152 configurations) and 8 of the 22 route kinds" if ctx.quick
               else "all 9216 configurations x all 22 route kinds")

    servers = {"none": U.build_server()[0],
               "nostorage": U.build_server(external_location=ExternalLocationConfig())[0],
               "storage": U.build_server(external_location=ExternalLocationConfig(storage=_Storage()))[0]}
    obs: list[dict] = []

    def flush():
        nonlocal obs
        if not obs:
            return
        bad = U.judge_split(ctx, "httpgate", "Caps", [{"case": o["case"], "obs": o["obs"]} for o in obs],
                            constants=consts)
        for idx, clauses in bad:
            o = obs[idx]
            cfg = o["case"]["cfg"]
            for cl in clauses:
                for route, st in zip(o["obs"]["routes"], o["_st"]):
                    ctx.violation(cl, {"route": route, "status": st,
                                       "config": "".join(k for k, v in sorted(cfg.items()) if v is True)
                                       + f"|ext={cfg['ext']}|comp={cfg['comp']}"},
                                  {"case": o["case"], "observed": o["obs"]})
        obs = []

    good = {"Content-Type": U.ARROW_CT, "Authorization": "Bearer ok"}
    for cj in cases:
        case = cj["case"]
        cfg = case["cfg"]
        key = U._json.dumps(cfg, sort_keys=True)
        vals = draw_vals(ctx.rng)
        app = build(cfg, vals, servers)
        server = servers[cfg["ext"]]
        svals = {"maxReq": str(vals["maxReq"]), "maxResp": str(vals["maxResp"]), "maxExt": str(vals["maxExt"]),
                 "maxUpload": str(vals["maxUpload"]), "ttl": str(vals["ttl"]), "echo": list(vals["echo"])}
        tokens = None
        groups: dict = {}
        P = "/vgi" if cfg["prefix"] else ""
        for route in case["routes"]:
            pr = EMPTY_PROBE
            if route == "probe":
                pr = probe(app, P)
                st, hd, _ = U.wsgi_call(app, "OPTIONS", P + "/health")
            elif route == "options_health":
                st, hd, _ = U.wsgi_call(app, "OPTIONS", P + "/health")
            elif route == "head_health":
                st, hd, _ = U.wsgi_call(app, "HEAD", P + "/health")
            elif route == "get_health":
                st, hd, _ = U.wsgi_call(app, "GET", P + "/health")
            elif route == "unary_ok":
                st, hd, _ = U.wsgi_call(app, "POST", P + "/echo", U.echo_body(server, 10), good)
            elif route == "unary_err":
                st, hd, _ = U.wsgi_call(app, "POST", P + "/fail", U.unary_body(server, "fail", {"x": 1}), good)
            elif route == "bad_request":
                st, hd, _ = U.wsgi_call(app, "POST", P + "/echo", b"not arrow at all", good)
            elif route == "unauth":
                st, hd, _ = U.wsgi_call(app, "POST", P + "/echo", U.echo_body(server, 10), {"Content-Type": U.ARROW_CT})
            elif route == "unknown_method":
                st, hd, _ = U.wsgi_call(app, "POST", P + "/no_such_method", U.echo_body(server, 10), good)
            elif route == "not_found_page":
                st, hd, _ = U.wsgi_call(app, "GET", P + "/a/b/c/d", None, {"Authorization": "Bearer ok"})
            elif route == "too_large":
                # Content-Length beyond the cap; the body itself is never read
                st, hd, _ = U.wsgi_call(app, "POST", P + "/echo", b"x", {**good, "Content-Length": str(vals["maxReq"] + 1)})
            elif route == "bad_ct":
                st, hd, _ = U.wsgi_call(app, "POST", P + "/echo", U.echo_body(server, 10), {**good, "Content-Type": "text/plain"})
            elif route == "bad_ce":
                st, hd, _ = U.wsgi_call(app, "POST", P + "/echo", U.echo_body(server, 10), {**good, "Content-Encoding": "br"})
            elif route == "init":
                st, hd, b = U.wsgi_call(app, "POST", P + "/prod/init", U.unary_body(server, "prod", {}), good)
                tokens = U.tokens_of(b) if st == 200 else None
            elif route in ("exchange", "exchange_bad"):
                if tokens is None:
                    s0, _, b = U.wsgi_call(app, "POST", P + "/prod/init", U.unary_body(server, "prod", {}), good)
                    tokens = U.tokens_of(b)
                body = U.tick_body(tokens) if route == "exchange" else U.tick_body({})
                st, hd, _ = U.wsgi_call(app, "POST", P + "/prod/exchange", body, good)
            elif route == "method_not_allowed":
                st, hd, _ = U.wsgi_call(app, "GET", P + "/echo", None, {"Authorization": "Bearer ok"})
            elif route == "options_rpc":
                st, hd, _ = U.wsgi_call(app, "OPTIONS", P + "/echo")
            elif route == "landing":
                st, hd, _ = U.wsgi_call(app, "GET", P + "/", None, {"Authorization": "Bearer ok"})
            elif route == "introspect_route":
                st, hd, _ = U.wsgi_call(app, "POST", P + "/__introspect_token__", b'{"token":"t"}',
                                        {"Content-Type": "application/json", "Authorization": "Bearer ok"})
            elif route == "session_delete":
                st, hd, _ = U.wsgi_call(app, "DELETE", P + "/__session__", None, {"Authorization": "Bearer ok", "VGI-Session": "bogus"})
            elif route == "upload_url":
                from vgi_rpc.http._common import _UPLOAD_URL_METHOD
                import pyarrow as pa
                body = U.world.raw_request(_UPLOAD_URL_METHOD.encode(), pa.schema([pa.field("count", pa.int64())]), {"count": 1})
                st, hd, _ = U.wsgi_call(app, "POST", P + "/__upload_url__/init", body, good)
            elif route == "auth_crash":
                st, hd, _ = U.wsgi_call(app, "POST", P + "/echo", U.echo_body(server, 10), {**good, "Authorization": "Bearer crash"})
            elif route == "auth_unavailable":
                st, hd, _ = U.wsgi_call(app, "POST", P + "/echo", U.echo_body(server, 10), {**good, "Authorization": "Bearer down"})
            elif route == "cors_preflight":
                st, hd, _ = U.wsgi_call(app, "OPTIONS", P + "/echo", None,
                                        {"Origin": "https://app.example", "Access-Control-Request-Method": "POST",
                                         "Access-Control-Request-Headers": "content-type, x-vgi-accept-encoding"})
            elif route == "outside_prefix":
                st, hd, _ = U.wsgi_call(app, "GET", "/echo", None, {"Authorization": "Bearer ok"})
            else:
                raise MachineryError(f"route kind {route} not concretised")
            h, unknown = headers_obs(hd)
            gkey = "probe" if route == "probe" else U._json.dumps([h, unknown], sort_keys=True)
            g = groups.get(gkey)
            if g is None:
                g = groups[gkey] = {"case": case, "_st": [],
                                    "obs": {"route": route, "routes": [], "vals": svals, "h": h, "unknown": unknown,
                                            "probe": pr}}
            g["obs"]["routes"].append(route)
            g["_st"].append(st)
            ctx.case([key, svals, route])
            if len(ctx.samples) < 5 and ctx.rng.random() < 0.0005:
                ctx.sample({"config": cfg, "values": svals, "route": route, "status": st,
                            "capability_headers": {HEADER[k]: v["v"] for k, v in h.items() if v["n"]}, "probe": pr})
        obs.extend(groups.values())
        U.dispose_app(app)
        if len(obs) >= 40000:
            flush()
    flush()
    ctx.extra["configurations"] = len(cases)
    ctx.extra["routes"] = sorted({r for cj in cases for r in cj["case"]["routes"]})
