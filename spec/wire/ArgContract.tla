------------------------------ MODULE ArgContract ------------------------------
(* C06 -- a service method is invoked only with contract-conforming arguments.

   Decision table over  signature x perturbation  (method behaviour and dispatch path are part of the observation and
   are quantified inside the table invariants / Conforms).

     signature     sequence of <= MaxParams parameters  [t, d]  with t drawn from the constant Types:
                     t  "i64" int | "i32" Annotated[int, ArrowType(int32)] | "f64" float | "str" | "oi64" Optional[int]
                        | "enum" (an Enum, dictionary-encoded string on the wire)
                        | "bool" | "bytes" | "f32" Annotated[float, ArrowType(float32)] | "list" list[int]
                        | "ostr" Optional[str] | "oenum" Optional[Enum] | "dc" (a serializable dataclass, IPC bytes on the
                          wire)
                     d  the parameter has a default (defaults are trailing, as Python requires)
     perturbation  [op, i, j, t] applied to the request a correct client would send:
                     none | rename(i) | swap(i,j) | add (i = 0 front, 1 back) | drop(i) |
                     retype(i, "widen" = same family other width: int32<->int64, float32->float64, utf8->large_utf8,
                                other dictionary index width;  "other" = different family) |
                     nullflip(i)  (the field's nullable flag) |
                     null(i, "asis" = schema as declared, "honest" = the field is marked nullable as well) |
                     badvalue(i)  (declared column, but the value cannot become the parameter's Python object: a string
                                   that names no enum member, bytes that are no serialized dataclass) |
                     dup(i, "same" | "other")  (an extra column at the end that re-uses parameter i's NAME, with its
                                   type or another one -- name->value maps keep the last one) |
                     dropall  (a request without any column)

   The oracle is the statement itself, on an abstract schema (sequence of [name, type, nullable]): the method runs
   iff the request schema EQUALS the declared one (names, order, types, nullability), every null sits in a nullable
   (Optional) parameter, and every value can become the parameter's Python object (enum member, dataclass).  The table invariants then establish, for every
   signature, which perturbations that admits: none, and a null in an Optional parameter -- nothing else.        *)
EXTENDS Naturals, Sequences, FiniteSets

CONSTANTS MaxParams,
          Types          \* parameter kinds the signatures are built from (subset of AllTypes)

AllTypes == {"i64", "i32", "f64", "str", "oi64", "enum", "bool", "bytes", "f32", "list", "ostr", "oenum", "dc"}
ASSUME Types \subseteq AllTypes
Decodable == {"enum", "oenum", "dc"}          \* the wire value has to be turned into a Python object
Param == [t : Types, d : BOOLEAN]
SigsN(n) == {s \in [1..n -> Param] : \A i \in 1..(n - 1) : s[i].d => s[i + 1].d}
Sigs == UNION {SigsN(n) : n \in 0..MaxParams}

P(op, i, j, t) == [op |-> op, i |-> i, j |-> j, t |-> t]
Perts(s) ==
  LET n == Len(s) IN
       {P("none", 0, 0, "-")}
  \cup {P("rename", i, 0, "-") : i \in 1..n}
  \cup UNION {{P("swap", i, j, "-") : j \in (i + 1)..n} : i \in 1..n}
  \cup {P("add", i, 0, "-") : i \in {0, 1}}
  \cup {P("drop", i, 0, "-") : i \in 1..n}
  \cup {P("retype", i, 0, t) : i \in 1..n, t \in {"widen", "other"}}
  \cup {P("nullflip", i, 0, "-") : i \in 1..n}
  \cup {P("null", i, 0, t) : i \in 1..n, t \in {"asis", "honest"}}
  \cup {P("badvalue", i, 0, "-") : i \in {k \in 1..n : s[k].t \in Decodable}}
  \cup {P("dup", i, 0, t) : i \in 1..n, t \in {"same", "other"}}
  \cup {P("dropall", 0, 0, "-") : x \in {1} \cap (IF n >= 2 THEN {1} ELSE {})}

Cases == UNION {{[sig |-> s, p |-> p] : p \in Perts(s)} : s \in Sigs}

\* ------------------------------------------------------------------ abstract schemas
Nullable(t) == t \in {"oi64", "ostr", "oenum"}
Decl(s) == [i \in 1..Len(s) |-> [n |-> i, t |-> s[i].t, nl |-> Nullable(s[i].t)]]
NewCol == [n |-> 99, t |-> "new", nl |-> TRUE]
Req(c) ==
  LET d == Decl(c.sig)  p == c.p IN
  CASE p.op = "rename"   -> [d EXCEPT ![p.i].n = 0]
    [] p.op = "swap"     -> [d EXCEPT ![p.i] = d[p.j], ![p.j] = d[p.i]]
    [] p.op = "add"      -> IF p.i = 0 THEN <<NewCol>> \o d ELSE Append(d, NewCol)
    [] p.op = "drop"     -> [k \in 1..(Len(d) - 1) |-> IF k < p.i THEN d[k] ELSE d[k + 1]]
    [] p.op = "retype"   -> [d EXCEPT ![p.i].t = p.t]
    [] p.op = "nullflip" -> [d EXCEPT ![p.i].nl = ~@]
    [] p.op = "null" /\ p.t = "honest" -> [d EXCEPT ![p.i].nl = TRUE]
    [] p.op = "dup"      -> Append(d, [n |-> p.i, t |-> (IF p.t = "same" THEN d[p.i].t ELSE "other"), nl |-> d[p.i].nl])
    [] p.op = "dropall"  -> <<>>
    [] OTHER             -> d
NullAt(c) == IF c.p.op = "null" THEN {c.p.i} ELSE {}

\* the statement
SchemaEqual(c)  == Req(c) = Decl(c.sig)
NullsAllowed(c) == \A i \in NullAt(c) : Nullable(c.sig[i].t)
ValuesDecode(c) == c.p.op # "badvalue"
Invoke(c) == SchemaEqual(c) /\ NullsAllowed(c) /\ ValuesDecode(c)

Reason(c) == IF Invoke(c) THEN "none"
             ELSE IF ~SchemaEqual(c) THEN "schema" ELSE IF ~NullsAllowed(c) THEN "null" ELSE "value"

Expected(c) == [invoke |-> Invoke(c), reason |-> Reason(c),
                dropped_default |-> (c.p.op = "drop" /\ c.sig[c.p.i].d)]

\* ------------------------------------------------------------------ table sanity (TLC, every case)
OnlyIdentityAndOptionalNull(c) ==
  Invoke(c) <=> (c.p.op = "none" \/ (c.p.op = "null" /\ Nullable(c.sig[c.p.i].t)))
DefaultsNeverExcuse(c) ==                 \* dropping a defaulted parameter is refused like dropping a required one
  c.p.op \in {"drop", "dropall"} => ~Invoke(c)
WideningNeverAdmitted(c) == c.p.op = "retype" => ~Invoke(c)
EverySchemaChangeDetected(c) ==           \* every structural perturbation really changes the abstract schema
  c.p.op \in {"rename", "swap", "add", "drop", "retype", "nullflip", "dup", "dropall"} => ~SchemaEqual(c)
WellFormed(c) == /\ Len(c.sig) <= MaxParams
                 /\ \A i \in 1..(Len(c.sig) - 1) : c.sig[i].d => c.sig[i + 1].d
                 /\ IF c.p.op = "add" THEN c.p.i \in {0, 1}              \* (front / back flag, not a position)
                                     ELSE c.p.i <= Len(c.sig) /\ c.p.j <= Len(c.sig)

\* ------------------------------------------------------------------ judging what the real code did
(* observation o:
     path     "sock_unary" | "sock_stream" | "http_unary" | "http_stream"
              | "sock_shm"   (socket unary; the request batch travels through a shared-memory pointer: the inline batch
                              has the declared schema and no row, the perturbed batch is the one in the segment)
              | "sock_ctx" | "http_ctx"   (unary method that also takes the framework-injected ctx parameter)
     beh      what the method body does when it runs:  "ok" | "type_error" | "arrow_invalid" | "value_error" |
              "key_error" | "version_error"  (raises TypeError / pa.ArrowInvalid / ValueError / KeyError / VersionError)
     ncalls   entries the implementation's invocation log gained
     args_ok  the logged arguments are exactly the values sent (None where a null was sent, the Enum member for an
              enum name)
     status   HTTP status (0 on sockets)
     kind     "result" | "error" | "none"        what came back
     err      exception type carried by the error ("" if none)
     marker   (http) the X-VGI-RPC-Error marker header is present                                              *)
Http(o) == o.path \in {"http_unary", "http_stream", "http_ctx"}
BehErr(b) == CASE b = "type_error" -> "TypeError" [] b = "arrow_invalid" -> "ArrowInvalid" [] b = "value_error" -> "ValueError"
               [] b = "key_error" -> "KeyError" [] b = "version_error" -> "VersionError" [] OTHER -> ""

NoDispatchOnMismatch(c, o) == ~Invoke(c) => o.ncalls = 0
DispatchOnMatch(c, o)      == Invoke(c) => o.ncalls = 1
ExactArgs(c, o)            == o.ncalls > 0 => o.args_ok
RejectedAsRequestError(c, o) == ~Invoke(c) => (o.kind = "error" /\ (Http(o) => o.status = 400))
MethodErrorInBand(c, o)    == (Invoke(c) /\ o.beh # "ok") =>
                                 /\ o.kind = "error" /\ o.err = BehErr(o.beh)
                                 /\ Http(o) => (o.status \notin 400..499 /\ o.marker)
ResultReturned(c, o)       == (Invoke(c) /\ o.beh = "ok") => (o.kind = "result" /\ (Http(o) => o.status = 200))

Conforms(c, o) ==
       {"NoDispatchOnMismatch"   : x \in {1} \cap (IF NoDispatchOnMismatch(c, o) THEN {} ELSE {1})}
  \cup {"DispatchOnMatch"        : x \in {1} \cap (IF DispatchOnMatch(c, o) THEN {} ELSE {1})}
  \cup {"ExactArgs"              : x \in {1} \cap (IF ExactArgs(c, o) THEN {} ELSE {1})}
  \cup {"RejectedAsRequestError" : x \in {1} \cap (IF RejectedAsRequestError(c, o) THEN {} ELSE {1})}
  \cup {"MethodErrorInBand"      : x \in {1} \cap (IF MethodErrorInBand(c, o) THEN {} ELSE {1})}
  \cup {"ResultReturned"         : x \in {1} \cap (IF ResultReturned(c, o) THEN {} ELSE {1})}
=============================================================================
