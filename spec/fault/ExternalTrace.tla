--------------------------- MODULE ExternalTrace ---------------------------
(* Batch trace validation for External: every recorded real execution (case + log of route / upload / tamper / log /
   reject / deliver events) must be a behaviour of External's actions; External's clauses are evaluated on the
   recorded log itself.  One TLC register per trace (index = tid): furthest event consumed.                  *)
EXTENDS External, IOUtils, TLCExt
Traces == JsonDeserialize(IOEnv.TRACE_FILE)
VARIABLES tid, l
tvars == <<vars, tid, l>>
TLog == Traces[tid].log
TEv == TLog[l]
More == l <= Len(TLog)
TraceInit == /\ tid \in 1..Len(Traces) /\ l = 1 /\ InitWith(Traces[tid].case)
Adv(k) == l' = l + k /\ UNCHANGED tid

TProduce == /\ More /\ TEv.e = "route" /\ Produce
            /\ IF c.thr = "above" THEN TEv.r = "inline" /\ Adv(1)
               ELSE /\ TEv.r = "external" /\ l + 1 <= Len(TLog) /\ TLog[l + 1].e = "upload"
                    /\ TLog[l + 1].enc = c.comp /\ Adv(2)
TTamper == More /\ TEv.e = "tamper" /\ TEv.cor = c.cor /\ TEv.psha = c.psha /\ Tamper /\ Adv(1)
TLogEv == /\ More /\ TEv.e = "log" /\ pc = "walk" /\ todo # <<>> /\ Head(todo) \in {"L", "F"}
          /\ TEv.forged = (Head(todo) = "F") /\ Walk /\ Adv(1)
\* batches that are neither log nor pointer are walked silently
TWalkData == pc = "walk" /\ todo # <<>> /\ Head(todo) \notin {"L", "F", "E", "P"} /\ Walk /\ UNCHANGED <<tid, l>>
TRetry == More /\ TEv.e = "retry" /\ Retry /\ Adv(1)
TFetchOk == pc = "fetch" /\ ShaOk /\ store.bytes # "damaged" /\ Fetch /\ pc' = "walk" /\ UNCHANGED <<tid, l>>
TReject == /\ More /\ TEv.e = "reject"
           /\ \/ (pc = "fetch" /\ Fetch)
              \/ (pc = "walk" /\ todo # <<>> /\ Head(todo) \in {"P", "E"} /\ Walk)
              \/ Finish
           /\ pc' = "done" /\ Last(log').e = "reject" /\ Last(log').why = TEv.why
           /\ Adv(1)
TDeliver == /\ More /\ TEv.e = "deliver" /\ Finish
            /\ Last(log').e = "deliver" /\ Last(log').what = TEv.what /\ Last(log').logs = TEv.logs /\ TEv.logs_ok
            /\ TEv.md_ok
            /\ Adv(1)
\* inline delivery: the cycle's log events, then the deliver event
TInline == /\ pc = "inline" /\ Inline
           /\ LET k == Len(log') - Len(log) IN
                /\ l + k - 1 <= Len(TLog)
                /\ \A j \in 0..(k - 1) : TLog[l + j] = log'[Len(log) + 1 + j]
                /\ Adv(k)
TraceNext == TRetry \/ TInline \/ TProduce \/ TTamper \/ TLogEv \/ TWalkData \/ TFetchOk \/ TReject \/ TDeliver
TraceSpec == TraceInit /\ [][TraceNext]_tvars

Progress == TLCSet(tid, IF TLCGet(tid) < l THEN l ELSE TLCGet(tid))
Constr == Progress
ASSUME \A i \in 1..Len(Traces) : TLCSet(i, 0)
Verdict(i) == [i |-> i, matched |-> TLCGet(i) - 1, len |-> Len(Traces[i].log),
               accepted |-> TLCGet(i) = Len(Traces[i].log) + 1,
               bad |-> Violated(Traces[i].case, Traces[i].log)]
Report == \A i \in 1..Len(Traces) :
            LET v == Verdict(i) IN (v.accepted /\ v.bad = {}) \/ PrintT("@@J@@" \o ToJson(v))
=============================================================================
