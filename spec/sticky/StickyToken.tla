---------------------------------- MODULE StickyToken ----------------------------------
(* C25 -- a VGI-Session token gives access to its session only on the worker that minted it and only under
   the identity that opened it, while the session is live.  Decision table over

     opener     identity that opened the session          "anon" | "A"
     life       where the session is in its lifecycle     "live" | "closed" (in-method close) | "deleted" (DELETE)
                                                          | "reaped" (TTL passed + reaper sweep) | "expired" (TTL passed,
                                                          no sweep yet) | "shutdown"
     worker     where the token is presented              "mint" | "other" (same key, different server id)
     presenter  identity presenting it                    "anon" | "A" | "B" | "C"
                (A = ("a","bc"), B = ("ab","c") -- same concatenation as A; C = ("", "anonymous") -- authenticated
                 look-alike of the anonymous tail)
     mut        what was done to the token                "none" | "flip" (any byte changed) | "trunc" | "extend"
                                                          | "garbage" (not a token at all)
     verb       "call" (a method on the session) | "delete" (DELETE {prefix}/__session__)

   Access(c) is the only case in which the method may run / DELETE may answer 204.                         *)
EXTENDS Naturals, FiniteSets

Openers == {"anon", "A"}
Lives == {"live", "closed", "deleted", "reaped", "expired", "shutdown"}
Workers == {"mint", "other"}
Presenters == {"anon", "A", "B", "C"}
Muts == {"none", "flip", "trunc", "extend", "garbage"}
Verbs == {"call", "delete"}
Cases == [opener : Openers, life : Lives, worker : Workers, presenter : Presenters, mut : Muts, verb : Verbs]

Genuine(c) == c.mut = "none"
Access(c) == Genuine(c) /\ c.worker = "mint" /\ c.presenter = c.opener /\ c.life = "live"
Expected(c) == [access |-> Access(c)]

\* table sanity: access needs every one of the four conditions; exactly 2 * |Verbs| access rows
AccessNeedsAll(c) == Access(c) => (c.life = "live" /\ c.worker = "mint" /\ c.mut = "none" /\ c.presenter = c.opener)
Monotone(c) == \A l \in Lives \ {"live"} : ~Access([c EXCEPT !.life = l])

(* observation o:
     dispatched   the method body ran against the session (call) / the close hook ran because of this request (delete)
     lost         the client saw a session_lost error (call)
     status       HTTP status
     same200      (delete, status 200) the response is byte-identical, modulo request id, to the reference 200
     victim_ok    after the presentation the session is still live and serves its owner  (only meaningful when the
                  session was live before; TRUE otherwise)
     closed_by    the session's close hook ran during this presentation                                        *)
Conforms(c, o) ==
  LET a == Access(c) IN
       {"DispatchOnlyWithAccess" : x \in {1} \cap (IF o.dispatched => a THEN {} ELSE {1})}
  \cup {"AccessIsServed"         : x \in {1} \cap (IF (a /\ c.verb = "call") => (o.dispatched /\ ~o.lost) THEN {} ELSE {1})}
  \cup {"LostWithoutDispatch"    : x \in {1} \cap (IF (~a /\ c.verb = "call") => (o.lost /\ ~o.dispatched) THEN {} ELSE {1})}
  \cup {"Delete204IffOwnedLive"  : x \in {1} \cap (IF c.verb = "delete" => ((o.status = 204) = a) THEN {} ELSE {1})}
  \cup {"Delete200Indistinguishable" : x \in {1} \cap (IF (c.verb = "delete" /\ ~a) => (o.status = 200 /\ o.same200) THEN {} ELSE {1})}
  \cup {"ForeignCannotClose"     : x \in {1} \cap (IF (~a /\ c.life = "live") => (o.victim_ok /\ ~o.closed_by) THEN {} ELSE {1})}
=========================================================================================
