"""X01 (extended coverage) -- life cycle of dispatch hooks (_DispatchHook / _CompositeDispatchHook, the otel / sentry
extension point).  spec/wire/HookLife.tla (state machine with the ghost server trace + monitor), HookLifeTrace.tla."""
import json
import multiprocessing as mp
import os
import shutil
import threading
import time
import zlib

from drivers import _extra1_world as W
from vf import tracecheck
from vf.core import Ctx
from vf.tlc import MachineryError, render_cfg, require_ok, run_tlc, sany, wrap_module

META = {
    "engine": "wire",
    "text": "TLC model-checks HookLife.tla: every call history of <= MaxCalls calls over an 18-method service (unary "
            "ok / raise, unknown method, rejected parameters, __describe__, producers with and without header, "
            "exchanges; init raise, first / later process() step raise, finish) x every client exit (k ticks then "
            "close or cancel, iterate to the end) x transport (pipe: a stream call is one dispatch; HTTP: /init, every "
            "continuation / exchange turn are dispatches) x every configuration of 0..2 hooks with behaviours ok / "
            "start raises / end raises, plus a version-mismatch world, with the ghost server trace, against the "
            "monitor clauses NoDoubleStart, StartOrder, StartBeforeBody, EndAfterBody, NoEndWithoutStart, SameToken, "
            "EndOrder, ErrorIffFailed, ErrorIsTheException, HookOnlyAroundDispatch, EndExactlyOnce (+ TokensFresh, "
            "OpenIffStream, RejectedSilent).  Every TLC-enumerated single-call history and a seeded sample of the "
            "two-call histories is replayed on a real pipe connection (RpcServer.serve) and on the in-process HTTP "
            "client with recording hooks registered through _register_dispatch_hook and an instrumented service; the "
            "(client events, server event trace, detailed client history, hook-less detailed history) tuple is judged "
            "by TLC against HookLifeTrace.tla: the monitor runs on the REAL trace, Transparent compares the client's "
            "detailed history with the hook-less run, TraceDiffers (drift) compares the real trace with the model's.",
    "note": "Extended coverage: no listed property talks about the hook extension point.  Hard clause: Transparent "
            "(a hook that raises never changes what the client observes).  Deviations the code makes knowingly are "
            "modelled by Dev_ switches (pre-built __describe__ answer and HTTP cancel requests call no hook) and are "
            "not judged.  'Failed dispatch' = the instrumented implementation announced a raise inside the dispatch "
            "(fault event); token identity = the object handed out by that hook's own start.  Trusted: the recorder's "
            "total order (one server thread per pipe connection; in-process HTTP runs in the caller's thread).",
    "technique": "TLC exhaustive exploration of a TLA+ state machine with a ghost event trace and a monitor; "
                 "TLC-enumerated histories replayed on real pipe / in-process HTTP connections with recording hooks; "
                 "TLC trace validation (monitor on the recorded trace, model comparison as drift)",
}

INVS = ["PrefixClean", "DoneClean", "TokensFresh", "OpenIffStream", "RejectedSilent"]
BEH = ["ok", "rs", "re"]
EVKEYS = ("ev", "h", "m", "tok", "err", "raised")
# hook configurations that go on to a second call (model constant PairHooks)
PAIR_Q = [[], ["ok"], ["re", "ok"], ["rs", "re"]]
PAIR_T = [[], ["ok"], ["rs"], ["re"], ["re", "ok"], ["rs", "re"]]


def tla_seq(x) -> str:
    return "<<" + ", ".join('"%s"' % b for b in x) + ">>"


def consts(max_calls, max_ticks, transports=("pipe", "http"), ver=False, full_pairs=True, fix=True, max_hooks=2):
    return {"MaxCalls": max_calls, "MaxTicks": max_ticks, "MaxHooks": max_hooks, "Behaviours": set(BEH),
            "Transports": set(transports), "VerMismatch": ver, "FullPairs": full_pairs,
            "Dev_DescribeUnhooked": True, "Dev_HttpCancelUnhooked": True,
            "FixHttpTurnError": fix, "FixHttpErrorUnwrapped": fix, "FixDropEnds": fix}


def model_check(ctx: Ctx, wd, name: str, cs: dict, pair_hooks: list | None, emit: bool = True, mod: str = "MC_HookLife",
                extra_invs=(), record: bool = True):
    ph = "HookCfgs" if pair_hooks is None else "{" + ", ".join(tla_seq(h) for h in pair_hooks) + "}"
    wrap_module(wd, "HookLife", mod, {
        "PairHooksDef": ph,
        "EmitMethods": 'PrintT("@@J@@" \\o ToJson([methods |-> Methods]))',
        "Emit": 'Done => PrintT("@@J@@" \\o ToJson([tr |-> tr, hooks |-> hooks, script |-> script, hist |-> hist, '
                'strace |-> strace]))'}, extends="TLC, Json")
    if emit:
        src = (wd / f"{mod}.tla").read_text().replace("====", "ASSUME EmitMethods\n====")
        (wd / f"{mod}.tla").write_text(src)
    r = run_tlc(wd, mod, render_cfg(constants=cs, overrides={"PairHooks": "PairHooksDef"},
                                    invariants=INVS + list(extra_invs) + (["Emit"] if emit else [])),
                timeout=1500, cfg_name=f"mc_{abs(hash(name)) % 10**6}.cfg",
                env={"JAVA_TOOL_OPTIONS": "-XX:TieredStopAtLevel=1"})
    if not record:
        return r, name
    ctx.add_tlc(name, r)
    require_ok(r, f"HookLife intended design ({name})")
    if not emit:
        return None, []
    methods = next(j["methods"] for j in r.json_lines if "methods" in j)
    hs: dict = {}
    for j in r.json_lines:      # (a vanished client has two admitted endings in the model: one history, first ending kept)
        if "script" in j:
            hs.setdefault(json.dumps([j["tr"], j["hooks"], j["script"]], sort_keys=True), j)
    return methods, list(hs.values())


class Worlds:
    """Real deployments, built once per (version world, transport, hook configuration)."""

    def __init__(self, methods: list) -> None:
        self.methods = methods
        self.built: dict = {}
        self.http: dict = {}
        self.current = None

    def _build(self, ver: bool):
        if self.current != ver:
            # W.build fills the module-level method table the state classes read: one world active at a time
            self.built[ver] = W.build(self.methods, ver)
            self.current = ver
            self.http = {}
        return self.built[ver]

    def conn(self, ver: bool, tr: str, hooks: list):
        sp, impl, cp = self._build(ver)
        if tr == "pipe":
            return W.PipeConn(sp, impl, cp, hooks)
        key = tuple(hooks)
        if key not in self.http:
            self.http[key] = W.HttpConn(sp, impl, cp, hooks)
        return self.http[key]


def replay(worlds: Worlds, ver: bool, tr: str, hooks: list, script: list, xs: list) -> dict:
    conn = worlds.conn(ver, tr, hooks)
    conn.counter[0] = 0
    W.take_events()
    res, hung = W.with_watchdog(lambda: W.run_script(conn, script, xs), 8.0)
    closed = True
    if tr == "pipe":
        closed = (not hung) and conn.close(10.0)
    if hung and tr == "http":
        worlds.http.pop(tuple(hooks), None)
    evs = W.take_events()
    if res is None:
        res = {"hist": [["client", "hung"]], "obsd": ["HUNG"]}
    obsd = list(res["obsd"])
    if conn.died:
        obsd.append("SERVER-DIED:" + conn.died[0][:80])
    if not closed:
        obsd.append("SERVE-LOOP-DID-NOT-END")
    return {"hist": res["hist"], "obsd": obsd, "dropped": bool(res.get("dropped")), "strace": [{k: e[k] for k in EVKEYS} for e in evs if e["ev"] != "alog"],
            "hung": hung, "died": list(conn.died), "errtexts": [e.get("errtext") for e in evs if e["ev"] == "end"]}


def work(args) -> list:
    """Worker process: replay a shard of jobs (all of one version world).  job = (index, tr, hooks, script, xs)."""
    methods, ver, shard = args
    W.install_logging(False)
    worlds = Worlds(methods)
    base_cache: dict = {}
    out = []
    for ji, tr, hooks, script, xs in shard:
        bkey = json.dumps([tr, script], sort_keys=True)
        if bkey not in base_cache:
            base_cache[bkey] = replay(worlds, ver, tr, [], script, xs)
        base = base_cache[bkey]
        real = base if not hooks else replay(worlds, ver, tr, list(hooks), script, xs)
        out.append((ji, real, base))
    for c in worlds.http.values():
        c.close()
    return out


def _warm() -> None:
    import vgi_rpc.http  # noqa: F401
    from vgi_rpc.http import _testing  # noqa: F401


def run(ctx: Ctx) -> None:
    quick = ctx.quick
    wd = ctx.wd.stage("wire")
    sany(wd, "HookLife")
    sany(wd, "HookLifeTrace")
    W.install_logging(False)
    t0 = time.time()
    nproc = int(os.environ.get("VERIF_PROCS", "6" if quick else "10"))
    pool = mp.get_context("spawn").Pool(nproc, initializer=_warm)      # imports overlap with the model checking
    try:
        _run(ctx, wd, quick, t0, pool, nproc)
    finally:
        pool.terminate()


def _run(ctx: Ctx, wd, quick: bool, t0: float, pool, nproc: int) -> None:
    mt = 2 if quick else 3
    methods, one = model_check(ctx, wd, f"HookLife exhaustive MaxCalls=1 MaxTicks={mt} hooks<=2 pipe+http",
                               consts(1, mt), None, extra_invs=["MonAgrees"])
    _, ver1 = model_check(ctx, wd, f"HookLife exhaustive version-mismatch world MaxCalls=1 MaxTicks={0 if quick else 1} "
                                   "hooks<=1", consts(1, 0 if quick else 1, ver=True, max_hooks=1), None)
    three = []
    if not quick:
        _, three = model_check(ctx, wd, "HookLife exhaustive MaxCalls=1 MaxTicks=1 hooks<=3 pipe+http",
                               consts(1, 1, max_hooks=3), None)
        three = [h for h in three if len(h["hooks"]) == 3]

    # background (TLC on other cores while the real code runs): the two-call space against the invariants, and the
    # design as found (HTTP producer-turn failures end with error None; /init and exchange failures hand the hook the
    # transport's wrapper exception), which violates the monitor and is kept as documentation
    pair_hooks = PAIR_Q if quick else PAIR_T
    bg: dict = {}

    def background():
        try:
            bg["pairs"] = model_check(ctx, wd, f"HookLife exhaustive MaxCalls=2 MaxTicks=1 "
                                               f"{len(pair_hooks)} hook configurations (invariants only)",
                                      consts(2, 1), pair_hooks, emit=False, mod="MC_Pairs", record=False)
            wrap_module(wd, "HookLife", "MC_AsFound", {"PairHooksDef": "HookCfgs"}, extends="TLC")
            bg["asfound"] = run_tlc(wd, "MC_AsFound", render_cfg(constants=consts(1, 1, ("http",), fix=False, max_hooks=1),
                                                                 overrides={"PairHooks": "PairHooksDef"},
                                                                 invariants=["DoneClean"]),
                                    env={"JAVA_TOOL_OPTIONS": "-XX:TieredStopAtLevel=1"}, workers=2)
        except BaseException as e:  # noqa: BLE001
            bg["error"] = e

    bth = threading.Thread(target=background, daemon=True)
    bth.start()

    # over stateless HTTP a vanishing client sends nothing, exactly like close(): quick replays those histories on the
    # socket family only (and not at all in the version-mismatch world, where nothing is ever dispatched)
    def drops(h) -> bool:
        return any(c["ops"] and c["ops"][-1] == "d" for c in h["script"])

    if quick:
        one = [h for h in one if not (h["tr"] == "http" and drops(h))]
        ver1 = [h for h in ver1 if not drops(h)]
    for hs in (one, ver1, three):
        hs.sort(key=lambda h: json.dumps([h["tr"], h["hooks"], h["script"]], sort_keys=True))   # TLC's order varies
    three = three[ctx.rng.randrange(2)::2]             # the 27 three-hook configurations: every other history
    # two-call histories: the MaxCalls=2 script space is CallDescs x CallDescs; a seeded sample of it is composed here
    # from the TLC-enumerated call descriptors (TLC checks the whole space above and re-runs the model on each below)
    descs = sorted({json.dumps(h["script"][0], sort_keys=True) for h in one})
    n_pairs = 300 if quick else 3000
    two = []
    first = [d for d in descs if not d.endswith('"d"]}')]     # nothing follows a vanished client on its connection
    for _ in range(n_pairs):
        two.append({"tr": ctx.rng.choice(["pipe", "http"]), "hooks": ctx.rng.choice(pair_hooks),
                    "script": [json.loads(ctx.rng.choice(first)), json.loads(ctx.rng.choice(descs))],
                    "hist": None, "strace": None})
    ctx.exhaustive = True
    ctx.rule = ("case = one call history (script of 1-2 calls with client exit points, transport, hook configuration), "
                "replayed on a fresh real pipe connection / the in-process HTTP client with recording hooks; single-call "
                "histories: all that TLC enumerates; two-call histories: a seeded sample of CallDescs x CallDescs (the "
                "space TLC model-checks); non-trivial = distinct (world, transport, hooks, script) tuples executed")
    ctx.assume("HTTP legs use the in-process falcon test client (make_sync_client), one worker, no response cap",
               "socket-family transport = make_pipe_pair; the server trace is read after the serve loop ended (EOF)",
               "hooks are registered with vgi_rpc.rpc._common._register_dispatch_hook, as vgi_rpc.otel / sentry do",
               f"two-call histories: seeded sample ({n_pairs}) over hook configurations {pair_hooks}")
    ctx.extra["model_phase_s"] = round(time.time() - t0, 1)
    t1 = time.time()

    jobs = [(False, h) for h in one + three + two] + [(True, h) for h in ver1]
    seed = ctx.rng.randrange(1, 50)
    shards: dict = {}
    for ji, (ver, h) in enumerate(jobs):
        xs = [seed * 10 + 3 * k + 1 for k in range(len(h["script"]))]
        # a script's hooked variants and its hook-less baseline run in the same worker (baseline once per worker)
        k = zlib.crc32(json.dumps([h["tr"], h["script"]], sort_keys=True).encode()) % nproc
        shards.setdefault((ver, k), []).append((ji, h["tr"], h["hooks"], h["script"], xs))
    try:
        parts = pool.map_async(work, [(methods, ver, sh) for (ver, _), sh in sorted(shards.items())],
                               chunksize=1).get(timeout=1500)
    except mp.TimeoutError as e:
        raise MachineryError("X01 workers did not finish") from e
    results: dict = {}
    for part in parts:
        for ji, real, base in part:
            results[ji] = (real, base)
    traces, metas = [], []
    for ji, (ver, h) in enumerate(jobs):
        real, base = results[ji]
        ctx.case([ver, h["tr"], h["hooks"], h["script"]])
        traces.append({"tr": h["tr"], "hooks": h["hooks"], "script": h["script"], "events": real["hist"],
                       "strace": real["strace"], "obsd": real["obsd"], "based": base["obsd"],
                       "dropped": real["dropped"]})
        metas.append((ver, h, real, base))
    ctx.extra["real_code_phase_s"] = round(time.time() - t1, 1)
    for i in range(0, len(jobs), max(1, len(jobs) // 5)):
        ver, h, real, base = metas[i]
        ctx.sample({"transport": h["tr"], "hooks": h["hooks"], "script": h["script"], "client_events": real["hist"],
                    "server_trace": [f"{e['ev']}:{e['h']}:{e['m']}:{e['tok']}:{e['err']}" for e in real["strace"]]})

    # code -> spec: TLC validates every recorded execution (several TLC processes side by side, one workdir each)
    n_acc = 0
    groups = []
    for ver in (False, True):
        idx = [i for i, m in enumerate(metas) if m[0] == ver]
        nparts = max(1, min(4 if quick else 6, len(idx) // 600))
        groups += [(ver, idx[k::nparts]) for k in range(nparts) if idx[k::nparts]]
    verdicts: dict = {}

    def validate(gi: int, ver: bool, idx: list) -> None:
        sub = wd / f"tv{gi}"
        sub.mkdir()
        for f in wd.glob("*.tla"):
            shutil.copy(f, sub / f.name)
        verdicts[gi] = tracecheck.validate(
            ctx, sub, "HookLifeTrace", [traces[i] for i in idx], constants=consts(2, 3, ver=ver, max_hooks=3),
            overrides={"PairHooks": "PairHooksAll"},
            name=f"HookLifeTrace: (client events, server trace) of {len(idx)} replays, ver_mismatch={ver}", chunk=4000)

    errs: list = []

    def guarded(*a) -> None:
        try:
            validate(*a)
        except BaseException as e:  # noqa: BLE001
            errs.append(e)

    ths = [threading.Thread(target=guarded, args=(gi, ver, idx), daemon=True) for gi, (ver, idx) in enumerate(groups)]
    for t in ths:
        t.start()
    for t in ths:
        t.join(1500)
    if errs:
        raise errs[0]
    for gi, (ver, idx) in enumerate(groups):
        vs = verdicts[gi]
        for i, v in zip(idx, vs):
            _, h, real, base = metas[i]
            det = {"script": h["script"], "hooks": h["hooks"], "transport": h["tr"], "version_mismatch_world": ver,
                   "client_events": real["hist"], "server_trace": real["strace"], "model_trace": h["strace"],
                   "model_events": h["hist"], "client_detail": real["obsd"], "hookless_detail": base["obsd"],
                   "end_error_texts": real["errtexts"], "tlc": v}
            bad = list(v["bad"])
            if v["accepted"]:
                n_acc += 1
                if not bad:
                    ctx.traces_validated += 1
            else:
                ctx.drift.append({"client_history_differs": True, "script": h["script"], "tr": h["tr"],
                                  "hooks": h["hooks"], "real": real["hist"], "model": h["hist"], "tlc": v})
            for cl in bad:
                name, _, meth = cl.partition("@")
                if name == "TraceDiffers":
                    if len(bad) == 1:
                        ctx.drift.append({"server_trace_differs": True, **det})
                    continue
                sig = {"tr": h["tr"], "hooks": "+".join(h["hooks"]) or "none", "m": meth or h["script"][-1]["m"],
                       "world_ver_mismatch": ver, "exit": "".join(h["script"][-1]["ops"])}
                if name in ("ErrorIffFailed", "ErrorIsTheException"):
                    sig["hooks"] = sig["exit"] = "any"   # the reported error depends on neither hooks nor client exit
                ctx.violation(name, sig, det)
    ctx.extra["histories_replayed"] = len(jobs)
    ctx.extra["histories_accepted_by_model"] = n_acc
    ctx.extra["hook_configurations"] = sorted({"+".join(h["hooks"]) or "none" for _, h in jobs})
    bth.join(1500)
    if bth.is_alive() or "error" in bg:
        raise MachineryError(f"X01 background model checking failed: {bg.get('error')}")
    r2, name2 = bg["pairs"]
    ctx.add_tlc(name2, r2)
    require_ok(r2, f"HookLife intended design ({name2})")
    ctx.extra["design_as_found_violates"] = bg["asfound"].violated
    ctx.extra["design_as_found_counterexample_last_state"] = (bg["asfound"].counterexample[-1][1][:1500]
                                                              if bg["asfound"].counterexample else None)
