------------------------------- MODULE ConnIsoMonitor -------------------------------
(* The C41 clauses decided on the observable history of one execution, independent of how the code is structured (this
   decides VIOLATION; ConnIsoTrace decides drift).  case c = [mx |-> max_connections (0 = None), n |-> connections].
   observation o:
     ev     the trace points in their real total order (one thread runs at a time): [e, c] with e = "Connect" |
            "ServeBegin" (the per-connection thread built its transport) | "ServeEnd" (it closes it) |
            "MBegin" / "MEnd" (a method body or process() of connection c, identified by the call's own argument)
     obs    per connection what its client observed: <<kind, tag, value>> per answered call / batch
     solo   per connection what the same script observes when it is the only connection (a real solo run)
     tags   per connection the unique argument all its calls carry
     done   per connection: the client ran its whole script and closed without an error
     entry  the max_connections value (0 = None) that the public entry point -- serve_unix / serve_tcp with threaded=True
            -- handed to the accept loop                                                                            *)
EXTENDS Integers, Sequences, FiniteSets, TLC

Active(ev, i) == {c \in {ev[j].c : j \in 1..i} :
                    Cardinality({j \in 1..i : ev[j].e = "ServeBegin" /\ ev[j].c = c})
                      > Cardinality({j \in 1..i : ev[j].e = "ServeEnd" /\ ev[j].c = c})}
\* with max_connections set, never more than that many connections between ServeBegin and ServeEnd
ConcLimit(c, o) == c.mx > 0 => \A i \in 1..Len(o.ev) : Cardinality(Active(o.ev, i)) <= c.mx
\* the trace points really bracket the serving: a method of connection x runs only while x is being served
DispatchWhileServed(c, o) == \A i \in 1..Len(o.ev) : o.ev[i].e = "MBegin" => o.ev[i].c \in Active(o.ev, i)
\* every connection observes exactly its solo history, and every item echoes the connection's own argument
IsoHistory(c, o) == \A x \in 1..c.n : /\ o.obs[x] = o.solo[x]
                                      /\ \A i \in 1..Len(o.obs[x]) : o.obs[x][i][2] = o.tags[x]
\* a connection beyond the limit waits and is served later: every connection is served, to the end of its script
NoDrop(c, o) == \A x \in 1..c.n : /\ o.done[x]
                                  /\ \E i \in 1..Len(o.ev) : o.ev[i].e = "ServeBegin" /\ o.ev[i].c = x
                                  /\ \E i \in 1..Len(o.ev) : o.ev[i].e = "ServeEnd" /\ o.ev[i].c = x
\* the limit the caller asked the public entry point for is the limit the accept loop enforces
EntryLimit(c, o) == o.entry = c.mx
Conforms(c, o) == (IF ConcLimit(c, o) THEN {} ELSE {"ConcLimit"})
                  \cup (IF EntryLimit(c, o) THEN {} ELSE {"EntryLimit"})
                  \cup (IF DispatchWhileServed(c, o) THEN {} ELSE {"DispatchWhileServed"})
                  \cup (IF IsoHistory(c, o) THEN {} ELSE {"IsoHistory"})
                  \cup (IF NoDrop(c, o) THEN {} ELSE {"NoDrop"})
=====================================================================================
