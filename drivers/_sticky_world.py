"""Real sticky-session stack under the deterministic scheduler (shared by C25/C26/C27 drivers).

A fresh WSGI app (make_wsgi_app(enable_sticky=True)) is built while `vgi_rpc.http.server._sticky.threading`
and `.time` are replaced by the scheduler's shims, so the registry lock, every per-session RLock and the
clock the registry reads are under harness control.  No source change.
"""
import warnings
from dataclasses import dataclass
from typing import Protocol

import falcon.testing
import pyarrow as pa

import vgi_rpc.http.server._sticky as S
from vf import world
from vf.sched import Scheduler
from vgi_rpc.http import make_wsgi_app
from vgi_rpc.rpc import CallContext, RpcServer

_REAL_THREADING = S.threading
_REAL_TIME = S.time

PC_LABEL = {"init": "start", "get": "acq:REG", "lock": "acq:SES", "xlock": "acq:SES", "hlock": "acq:SES",
            "reval": "acq:REG", "pop": "acq:REG", "dispatch": "dispatch", "hhook": "hook", "xhook": "hook",
            "done": "EXIT"}


class StickySvc(Protocol):
    def open_s(self) -> int: ...
    def use(self) -> int: ...
    def use_close(self) -> int: ...


class _DummyReaper:
    def stop(self) -> None:
        pass


class World:
    """One app + one open session + scheduler."""

    def __init__(self, ttl: float, key: bytes = b"k" * 32) -> None:
        warnings.filterwarnings("ignore")
        self.sched = Scheduler()
        S.threading = self.sched.threading_shim()
        S.time = self.sched.time_shim()
        w = self

        class State:
            def __init__(self) -> None:
                self.closed = 0

            def close(self) -> None:
                self.closed += 1
                w.sched.emit(e="CloseBegin")
                w.sched.yield_point("hook")
                w.sched.emit(e="CloseEnd")

        class Impl:
            def open_s(self, ctx: CallContext) -> int:
                ctx.open_session(State())
                return 1

            def use(self, ctx: CallContext) -> int:
                assert ctx.session is not None
                w.sched.emit(e="DispatchBegin")
                w.sched.yield_point("dispatch")
                w.sched.emit(e="DispatchEnd")
                return 2

            def use_close(self, ctx: CallContext) -> int:
                assert ctx.session is not None
                w.sched.emit(e="DispatchBegin")
                w.sched.yield_point("dispatch")
                ctx.close_session()
                w.sched.emit(e="DispatchEnd")
                return 3

        self.server = RpcServer(StickySvc, Impl())
        self.app = make_wsgi_app(self.server, token_key=key, enable_sticky=True, sticky_default_ttl=ttl)
        self.mw = None
        for group in getattr(self.app, "_middleware", ()):
            for bm in group:
                owner = getattr(bm, "__self__", None)
                if isinstance(owner, S._StickyMiddleware):
                    self.mw = owner
        assert self.mw is not None
        self.mw._reaper = _DummyReaper()  # the sweep is driven explicitly as a scheduled thread
        self.registry = self.mw._registry
        self.registry._lock.name = "REG"
        self.client = falcon.testing.TestClient(self.app)
        self.req = world.raw_request(b"x", pa.schema([]), {})
        self.token = None
        self.results: dict[str, dict] = {}

    def restore(self) -> None:
        S.threading = _REAL_THREADING
        S.time = _REAL_TIME

    # -------------------------------------------------------------- unscheduled helpers (main thread)
    def post(self, method: str, headers: dict | None = None):
        body = world.raw_request(method.encode(), pa.schema([]), {})
        h = {"Content-Type": world.ARROW_CT}
        h.update(headers or {})
        return self.client.simulate_post(f"/{method}", body=body, headers=h)

    def open_session(self) -> str:
        r = self.post("open_s", {"VGI-Session-Accept": "true"})
        assert r.status_code == 200, r.status_code
        self.token = r.headers.get("VGI-Session")
        assert self.token
        for sid in list(self.registry):
            self.registry._entries[sid].lock.name = "SES"
        return self.token

    # -------------------------------------------------------------- scheduled threads
    def _request(self, name: str, method: str) -> None:
        r = self.post(method, {"VGI-Session": self.token})
        err = None
        if r.headers.get("content-type", "").startswith(world.ARROW_CT):
            for s in world.read_streams(r.content):
                err = err or world.error_of(s)
        self.results[name] = {"status": r.status_code, "kind": (err or {}).get("kind"), "type": (err or {}).get("type"),
                              "close_hdr": r.headers.get("VGI-Session-Close")}

    def _delete(self, name: str) -> None:
        r = self.client.simulate_delete("/__session__", headers={"VGI-Session": self.token})
        self.results[name] = {"status": r.status_code}

    def spawn(self, name: str, kind: str) -> None:
        if kind == "use":
            self.sched.spawn(name, self._request, name, "use")
        elif kind == "close":
            self.sched.spawn(name, self._request, name, "use_close")
        elif kind == "delete":
            self.sched.spawn(name, self._delete, name)
        elif kind == "reaper":
            self.sched.spawn(name, self.registry.drain_expired)
        elif kind == "shutdown":
            self.sched.spawn(name, self.registry.shutdown)
        else:
            raise ValueError(kind)


def run_schedule(kinds: dict[str, str], expires: int, steps: list, *, follow_pc=None) -> dict:
    """Execute one schedule on a fresh world.

    steps: list of ("Tick",) | ("Step", thread[, expected_pc_after]).
    Returns {"trace": [...per-step events...], "ghost": [...], "drift": str|None, "results": {...}}.
    """
    w = World(ttl=expires + 0.5)
    trace, drift = [], None
    try:
        w.open_session()
        for n, k in kinds.items():
            w.spawn(n, k)
        mark = 0
        for st in steps:
            if st[0] == "Tick":
                w.sched.clock += 1
                trace.append({"e": "Tick", "t": "", "label": "", "nclose": 0, "dbegin": False, "dend": False})
                continue
            t = st[1]
            if not w.sched.enabled(t):
                drift = f"step {len(trace)}: {t} not enabled at {w.sched.label(t)}"
                break
            lab = w.sched.step(t)
            evs = w.sched.events[mark:]
            mark = len(w.sched.events)
            trace.append({"e": "Step", "t": t, "label": lab,
                          "nclose": sum(1 for e in evs if e["e"] == "CloseBegin"),
                          "dbegin": any(e["e"] == "DispatchBegin" for e in evs),
                          "dend": any(e["e"] == "DispatchEnd" for e in evs)})
            if len(st) > 2 and PC_LABEL.get(st[2]) != lab:
                drift = f"step {len(trace)}: {t} parked at {lab}, spec pc {st[2]} expects {PC_LABEL.get(st[2])}"
                break
        # run whatever is left to completion (any order) so the ghost history is complete
        ok = w.sched.finish_all()
        if not ok:
            drift = (drift or "") + " deadlock-at-finish"
            w.sched.release_all()
        ghost = [{"e": e["e"], "t": e["thread"]} for e in w.sched.events]
        return {"trace": trace, "ghost": ghost, "drift": drift, "results": w.results,
                "errors": {k: repr(v) for k, v in w.sched.errors.items()}, "live": len(w.registry)}
    finally:
        w.restore()


# ------------------------------------------------------------------------------------------------
# Sequential multi-worker world for C25/C27 (no thread scheduling; the scheduler only serves the clock)
# ------------------------------------------------------------------------------------------------
IDENT = {"anon": None, "A": ("a", "bc"), "B": ("ab", "c"), "C": ("", "anonymous")}


class SeqWorld:
    """Two workers sharing one key (different server ids) + header-selected identities + logical clock."""

    def __init__(self, ttl: float = 1.5, key: bytes = b"k" * 32) -> None:
        from vgi_rpc.rpc import AuthContext

        warnings.filterwarnings("ignore")
        self.sched = Scheduler()
        S.threading = self.sched.threading_shim()
        S.time = self.sched.time_shim()
        self.log: list[tuple] = []          # (worker, method, session marker)
        self.closed: list[str] = []         # markers of sessions whose hook ran
        w = self

        class State:
            def __init__(self, marker: str) -> None:
                self.marker = marker

            def close(self) -> None:
                w.closed.append(self.marker)

        def make_impl(worker: str):
            class Impl:
                def open_s(self, marker: str, ctx: CallContext) -> int:
                    ctx.open_session(State(marker))
                    return 1

                def use(self, ctx: CallContext) -> int:
                    s = ctx.session
                    w.log.append((worker, "use", getattr(s, "marker", None)))
                    return 2

                def use_close(self, ctx: CallContext) -> int:
                    s = ctx.session
                    w.log.append((worker, "use_close", getattr(s, "marker", None)))
                    ctx.close_session()
                    return 3
            return Impl()

        def authenticate(req):
            h = req.get_header("X-Ident")
            if not h:
                return AuthContext.anonymous()
            d, p = IDENT[h]
            return AuthContext(domain=d, authenticated=True, principal=p)

        self.apps, self.clients, self.regs = {}, {}, {}
        for wk, sid in (("mint", "w-mint"), ("other", "w-other")):
            server = RpcServer(SeqSvc, make_impl(wk), server_id=sid)
            app = make_wsgi_app(server, token_key=key, enable_sticky=True, sticky_default_ttl=ttl,
                                authenticate=authenticate)
            for group in getattr(app, "_middleware", ()):
                for bm in group:
                    owner = getattr(bm, "__self__", None)
                    if isinstance(owner, S._StickyMiddleware):
                        owner._reaper = _DummyReaper()
                        self.regs[wk] = owner._registry
            self.apps[wk] = app
            self.clients[wk] = falcon.testing.TestClient(app)
        self._n = 0

    def restore(self) -> None:
        S.threading = _REAL_THREADING
        S.time = _REAL_TIME

    def hdr(self, ident: str, extra: dict | None = None) -> dict:
        h = {"Content-Type": world.ARROW_CT}
        if ident != "anon":
            h["X-Ident"] = ident
        h.update(extra or {})
        return h

    def call(self, worker: str, method: str, ident: str, token: str | None = None, accept: bool = False,
             args: dict | None = None, schema=None):
        schema = schema or pa.schema([])
        body = world.raw_request(method.encode(), schema, args or {})
        extra = {}
        if token is not None:
            extra["VGI-Session"] = token
        if accept:
            extra["VGI-Session-Accept"] = "true"
        r = self.clients[worker].simulate_post(f"/{method}", body=body, headers=self.hdr(ident, extra))
        err = None
        if r.headers.get("content-type", "").startswith(world.ARROW_CT):
            for s in world.read_streams(r.content):
                err = err or world.error_of(s)
        return r, err

    def delete(self, worker: str, ident: str, token: str | None):
        extra = {} if token is None else {"VGI-Session": token}
        return self.clients[worker].simulate_delete("/__session__", headers=self.hdr(ident, extra))

    def open(self, worker: str, ident: str) -> tuple[str, str]:
        self._n += 1
        marker = f"s{self._n}"
        schema = pa.schema([pa.field("marker", pa.string(), nullable=False)])
        r, err = self.call(worker, "open_s", ident, accept=True, args={"marker": marker}, schema=schema)
        assert r.status_code == 200 and err is None, (r.status_code, err)
        return r.headers["VGI-Session"], marker


class SeqSvc(Protocol):
    def open_s(self, marker: str) -> int: ...
    def use(self) -> int: ...
    def use_close(self) -> int: ...


# ------------------------------------------------------------------------------------------------
# C27: one worker, scripted methods, the real client session view
# ------------------------------------------------------------------------------------------------
class LifeSvc(Protocol):
    def run(self, script: str) -> str: ...
    def whoami(self) -> int: ...


class LifeWorld:
    def __init__(self, key: bytes = b"k" * 32) -> None:
        from vgi_rpc.http import _SyncTestClient, drain_handle, http_connect

        warnings.filterwarnings("ignore")
        self.opened: list[int] = []
        self.closed: list[int] = []
        w = self

        class State:
            def __init__(self, idx: int) -> None:
                self.idx = idx

            def close(self) -> None:
                w.closed.append(self.idx)

        class Impl:
            def run(self, script: str, ctx: CallContext) -> str:
                for ch in script:
                    if ch == "o":
                        idx = len(w.opened) + 1
                        ctx.open_session(State(idx))
                        w.opened.append(idx)
                    elif ch == "c":
                        ctx.close_session()
                    elif ch == "u":
                        if ctx.session is None:
                            raise LookupError("no session bound")
                return "ok"

            def whoami(self, ctx: CallContext) -> int:
                s = ctx.session
                return 0 if s is None else s.idx

        self.server = RpcServer(LifeSvc, Impl())
        self.app = make_wsgi_app(self.server, token_key=key, enable_sticky=True, sticky_default_ttl=3600.0)
        self.handle = drain_handle(self.app)
        self.sync = _SyncTestClient(self.app)
        self._cm = http_connect(LifeSvc, client=self.sync)
        self.conn = self._cm.__enter__()
        self._vcm = self.conn.with_session_token()
        self.view = self._vcm.__enter__()
        self.raw = falcon.testing.TestClient(self.app)

    def close(self) -> None:
        try:
            self._vcm.__exit__(None, None, None)
            self._cm.__exit__(None, None, None)
        finally:
            if self.handle is not None:
                self.handle.shutdown()
            for group in getattr(self.app, "_middleware", ()):
                for bm in group:
                    owner = getattr(bm, "__self__", None)
                    if isinstance(owner, S._StickyMiddleware):
                        owner.stop_reaper()

    def live(self) -> list[int]:
        return sorted(set(self.opened) - set(self.closed))

    def view_session(self) -> int:
        """Which session the client's view token resolves to: 0 none, -1 dead token."""
        tok = self.view.current_session_token()
        if tok is None:
            return 0
        body = world.raw_request(b"whoami", pa.schema([]), {})
        r = self.raw.simulate_post("/whoami", body=body, headers={"Content-Type": world.ARROW_CT, "VGI-Session": tok})
        for s in world.read_streams(r.content):
            if world.error_of(s):
                return -1
            for b, _md in s["batches"]:
                if b.num_rows == 1:
                    return int(b.column(0)[0].as_py())
        return -1

    def _raw_run(self, script: str) -> str:
        """The view's token without the opt-in header, response headers ignored (a non-tracking client)."""
        tok = self.view.current_session_token()
        schema = self.server.methods["run"].params_schema
        body = world.raw_request(b"run", schema, {"script": script})
        h = {"Content-Type": world.ARROW_CT}
        if tok is not None:
            h["VGI-Session"] = tok
        r = self.raw.simulate_post("/run", body=body, headers=h)
        for s_ in world.read_streams(r.content):
            e = world.error_of(s_)
            if e:
                t, m = e.get("type"), e.get("message") or ""
                if t == "ServerDrainingError":
                    return "server_draining"
                if t == "SessionLostError":
                    return "session_lost"
                if t == "LookupError":
                    return "no_session"
                if "opt in" in m:
                    return "no_optin"
                if "already active" in m:
                    return "already_bound"
                return f"other:{t}"
        return "ok"

    def request(self, script: str, via: str) -> str:
        from vgi_rpc.rpc import RpcError

        if via == "tokenonly":
            return self._raw_run(script)
        target = self.view if via == "view" else self.conn
        try:
            target.run(script=script)
            return "ok"
        except RpcError as e:
            t, m = e.error_type, str(e)
            if t == "ServerDrainingError":
                return "server_draining"
            if t == "SessionLostError":
                return "session_lost"
            if t == "LookupError":
                return "no_session"
            if "opt in" in m:
                return "no_optin"
            if "already active" in m:
                return "already_bound"
            return f"other:{t}"
