#!/venv/bin/python
"""tools/adv_setup.py K ID [ID ...] -- scratch worktree /tmp/adv-K of /repo HEAD + /tmp/seed-out/adv-K/PROPS.md (property text only)."""
import json, os, subprocess, sys
k, ids = sys.argv[1], sys.argv[2:]
props = {json.loads(l)["id"]: json.loads(l) for l in open("/verif/properties.jsonl")}
os.makedirs(f"/tmp/seed-out/adv-{k}", exist_ok=True)
with open(f"/tmp/seed-out/adv-{k}/PROPS.md", "w") as f:
    for i in ids:
        p = props[i]
        f.write(f"### {i} — {p['title']}\nStatement: {p['statement']}\nQuantified over: {p['quantifier']['text']}\n"
                f"Code anchors: {', '.join(p['anchors']['files'])}\n\n")
subprocess.run(["git", "-C", "/repo", "worktree", "add", "-q", "--detach", f"/tmp/adv-{k}", "HEAD"], check=True)
print("ok", k, ids)
