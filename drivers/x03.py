"""X03 (extended coverage) -- the authenticator factories answer as documented.  Spec: spec/gate/AuthFactories.tla."""
import itertools
import json

from drivers import _extra2_auth as W
from drivers._data_util import enumerate_cases, judge
from vf.core import Ctx

META = {
    "engine": "gate",
    "text": "AuthFactories.tla transcribes the docstrings of bearer_authenticate, bearer_authenticate_static, "
            "chain_authenticate, _combine_reasons, mtls_authenticate / _fingerprint / _subject and jwt_authenticate "
            "(plus docs/api/oauth.md, docs/api/mtls.md, unauthorized-spec 3.1) as decision tables: Authorization "
            "header shapes x token classes x factory configuration; every chain of 1-3 (thorough: 4) members over the "
            "outcome alphabet accept / six AuthFailure reasons / ValueError / ValueError subclass / PermissionError / "
            "RuntimeError / AuthUnavailableError; certificate header shapes x subject classes x validity windows x "
            "check_expiry x allowed_subjects / fingerprint key forms x hash algorithms; JWT token classes x issuer / "
            "audience configuration x cache state x JWKS endpoint behaviour; chains of the real factories in every "
            "order.  TLC checks table-sanity invariants (among them: the documented rules are order-sensitive only "
            "where the documentation says so, under every permutation), enumerates every case, and judges every "
            "observation (Conforms).  The driver builds each case from the real factories: exact header bytes on a "
            "real falcon.Request, certificates generated offline, JWTs signed offline with the JWKS served by a "
            "loopback HTTP endpoint handed over through the public jwks_uri parameter; every chain is also executed "
            "in every order of its members.",
    "note": "Extended coverage: no listed property talks about these factories; the contract is their documentation.  "
            "Trusted: the transcription of the docstrings; the harness's own RFC 4514 / serial / ISO-8601 renderings "
            "and fingerprint digests (hashlib); classification of returned objects into tags.  Set-valued rows where "
            "the documentation is silent: two certificates in one header, two CN attributes with only one allowed, "
            "JWTs without kid / exp / principal claim / with a future iat.  Dev_ switches (all TRUE = the code): "
            "scheme matched case-sensitively, fingerprint factory ignores its `domain` parameter, JWKS transport "
            "errors come out raw.  Clauses named Note_* / Doc_* are recorded as drift, never as violations.",
    "technique": "TLA+ decision tables checked and enumerated by TLC; spec-generated cases executed on the real "
                 "factories; recorded observations judged by TLC",
}

CONSTS = {"Dev_SchemeCaseSensitive": True, "Dev_FingerprintDomainParamIgnored": True, "Dev_JwksOutageRaw": True}
SANITY = ["T_OrderOnlyWhereDocumented", "T_ReasonClosed", "T_MissingIffAllMissing", "T_AcceptIffAccepterBeforePropagation",
          "T_ExpiryOnlyWhenAsked", "T_FingerprintExact", "T_SubjectExact", "T_JwtMultiOnlyWidens",
          "T_JwtUnsignedNeverAccepted", "T_RealOrderOnlyWhereDocumented", "T_ExpectedWellFormed"]


# ------------------------------------------------------------------------------------------------ families
def run_bearer(case: dict, bw: W.BearerWorld) -> tuple[dict, dict]:
    from vgi_rpc.http import bearer_authenticate

    tok = bw.tok[case["tok"]]
    hdrs = W.bearer_header(case["hdr"], tok, bw.other)
    calls: list = []
    if case["factory"] == "static":
        fn = bw.static(case["map"] == "withempty")
    else:
        def validate(token):
            calls.append(token)
            if case["val"] == "ret":
                return bw.ctx["v"]
            W.raise_for(case["val"], "validate says no")

        fn = bearer_authenticate(validate=validate)
    r, got = W.call(fn, W.mkreq(hdrs))
    who, same = bw.who(got) if got is not None else ("", False)
    o = {"k": r["k"], "reason": r["reason"], "exc": r["exc"], "who": who, "same": same,
         "calls": str(len(calls)) if case["factory"] == "custom" else "-",
         "arg": W.classify_arg(calls[0], tok, bw.other) if calls else "none"}
    return o, {"headers": hdrs}


def run_combine(case: dict) -> tuple[dict, dict]:
    from vgi_rpc.http._bearer import _combine_reasons

    got = _combine_reasons([W.CLOSED[c] for c in case["codes"]])
    return {"code": str(getattr(got, "value", got))}, {"codes": case["codes"]}


def run_chain(case: dict) -> tuple[dict, dict]:
    ms = case["ms"]
    req = W.mkreq({})
    ident = tuple(range(len(ms)))
    o = W.run_chain(ms, ident, req)
    perms = []
    for p in itertools.permutations(range(len(ms))):
        q = W.run_chain(ms, p, req)
        perms.append({"p": [j + 1 for j in p], "k": q["k"], "reason": q["reason"], "exc": q["exc"], "who": q["who"]})
    o["perms"] = perms
    return o, {"members": ms}


def run_ctor(case: dict) -> tuple[dict, dict]:
    from vgi_rpc.http import PreconditionGate, chain_authenticate, jwt_authenticate, mtls_authenticate_fingerprint

    what = case["what"]
    if what == "chain":
        ms = [(PreconditionGate(lambda req: {}, name="g", claims_key="g") if i + 1 == case["gate"] else (lambda req: None))
              for i in range(case["n"])]
        o = W.construct(lambda: chain_authenticate(*ms))
    elif what == "fpalg":
        o = W.construct(lambda: mtls_authenticate_fingerprint(fingerprints={}, algorithm=case["alg"]))
    else:
        kw = {"issuer": "https://i", "audience": "a", "jwks_uri": "http://127.0.0.1:1/jwks"}
        if what == "jwt_no_issuer":
            kw["issuer"] = ()
        if what == "jwt_no_audience":
            kw["audience"] = ()
        o = W.construct(lambda: jwt_authenticate(**kw))
    return o, {}


def run_mtls(case: dict, cw: W.CertWorld) -> tuple[dict, dict]:
    from vgi_rpc.http import mtls_authenticate, mtls_authenticate_fingerprint, mtls_authenticate_subject
    from vgi_rpc.rpc import AuthContext

    fac = case["factory"]
    sub = {"A": case["cert"]["sub"], "B": "b", "C": "a_ext"}[case["present"]] if fac == "fp" else case["cert"]["sub"]
    rec = cw.cert(sub, case["cert"]["val"])
    other = cw.cert("b" if sub == "a" else "a", "valid") if case["hdr"] == "two" else None
    hdrs, hname = cw.header(case["hdr"], rec, other)
    kw = {"check_expiry": case["exp"]}
    if hname != W.DEFAULT_CERT_HEADER:
        kw["header"] = hname
    calls: list = []
    f1 = f2 = vctx = None
    if fac == "subject":
        if case["allow"] != "none":
            kw["allowed_subjects"] = W.ALLOWED if case["allow"] == "set" else frozenset()
        if case["dom"] == "custom":
            kw["domain"] = "corp"
        fn = mtls_authenticate_subject(**kw)
    elif fac == "fp":
        a, b = cw.cert(case["cert"]["sub"], case["cert"]["val"]), cw.cert("b", case["cert"]["val"])
        f1 = AuthContext(domain="fpdom", authenticated=True, principal="fp-one", claims={"f": 1})
        f2 = AuthContext(domain="fpdom", authenticated=True, principal="fp-two", claims={"f": 2})
        m = {W.fp_key(b["der"], case["alg"], "exact"): f2}
        ka = W.fp_key(a["der"], case["alg"], case["form"])
        if ka is not None:
            m[ka] = f1
        if case["dom"] == "custom":
            kw["domain"] = "corp"
        fn = mtls_authenticate_fingerprint(fingerprints=m, algorithm=case["alg"], **kw)
    else:
        vctx = AuthContext(domain="vdom", authenticated=True, principal="v", claims={})

        def validate(cert):
            calls.append(cert.serial_number)
            if case["val"] == "ret":
                return vctx
            W.raise_for(case["val"], "validate says no")

        fn = mtls_authenticate(validate=validate, **kw)
    r, got = W.call(fn, W.mkreq(hdrs))
    o = {"k": r["k"], "reason": r["reason"], "exc": r["exc"], "who": "", "same": False,
         "calls": str(len(calls)) if fac == "generic" else "-",
         "arg": ("A" if calls and calls[0] == rec["serial"] else ("other" if calls else "none")),
         "principal": "", "domain": "", "authed": False, "claims_keys": False, "dn_ok": False, "serial_ok": False,
         "nva_ok": False, "whole2": False}
    if got is not None:
        o["domain"] = {"mtls": "default", "corp": "custom", "fpdom": "mapped"}.get(got.domain, "other")
        o["authed"] = got.authenticated is True
        if fac == "fp":
            o["who"] = "F1" if got == f1 else ("F2" if got == f2 else "other")
            o["same"] = got is f1 or got is f2
            if got is not f1 and got is not f2:      # a rebuilt context: who by principal + claims only
                o["who"] = {"fp-one": "F1", "fp-two": "F2"}.get(got.principal, "other")
                if dict(got.claims) != {"f": 1 if o["who"] == "F1" else 2}:
                    o["who"] = "other"
        elif fac == "generic":
            o["who"], o["same"] = ("v" if got == vctx else "other"), got is vctx
        else:
            o["who"] = "cn"
            o["principal"] = W.CN_TAG.get(got.principal, "other")
            cl = dict(got.claims)
            o["claims_keys"] = sorted(cl) == ["not_valid_after", "serial", "subject_dn"]
            o["dn_ok"] = cl.get("subject_dn") == rec["dn"]
            o["serial_ok"] = cl.get("serial") == rec["serial_hex"]
            o["nva_ok"] = cl.get("not_valid_after") == rec["nva"]
            if other is not None:
                o["whole2"] = (cl.get("subject_dn") == other["dn"] and cl.get("serial") == other["serial_hex"]
                               and cl.get("not_valid_after") == other["nva"])
    return o, {"headers": {k: v[:60] + "..." for k, v in hdrs.items()}, "configured_header": hname,
               "cert": {k: rec[k] for k in ("dn", "serial_hex", "nva")}}


def run_jwt(case: dict, jw: W.JwtWorld) -> tuple[dict, dict]:
    refused = case["jwks"] == "refused"
    own = W.JwksServer() if refused else None          # a private listener that is closed after priming
    fn, st, dom = jw.authenticator(case["cfg"], case["pclaim"], server=own)
    st["rotating"] = case["tok"] == "rotated"
    try:
        if case["primed"]:
            ok, _ = jw.token("ok")
            r0, _g = W.call(fn, W.mkreq({"Authorization": "Bearer " + ok}))
            if r0["k"] != "accept" or st["hits"] != 1:
                raise RuntimeError(f"priming failed: {r0} hits={st['hits']}")
        if refused:
            own.close()
            own = None
        elif case["jwks"] != "good":
            st["mode"] = case["jwks"]
        h0 = st["hits"]
        tok, minted = jw.token(case["tok"])
        hdrs = W.bearer_header(case["hdr"], tok, "x")
        r, got = W.call(fn, W.mkreq(hdrs))
        o = {"k": r["k"], "reason": r["reason"], "exc": r["exc"], "is_ve": r["is_ve"], "who": "token" if got is not None else "",
             "principal_ok": False, "domain_ok": False, "claims_same": False, "authed": False, "fetches": st["hits"] - h0}
        if got is not None:
            pc = case["pclaim"]
            o["principal_ok"] = (got.principal == str(minted[pc])) if pc in minted else got.principal in ("", None)
            o["domain_ok"] = got.domain == dom
            o["claims_same"] = dict(got.claims) == minted
            o["authed"] = got.authenticated is True
    finally:
        if own is not None:
            own.close()
    return o, {"authorization": {k: v[:40] + "..." for k, v in hdrs.items()}, "minted_claims": minted, "text": r["text"][:120]}


class RealWorld:
    def __init__(self, rng, jw: W.JwtWorld, cw: W.CertWorld) -> None:
        from vgi_rpc.http import bearer_authenticate_static, mtls_authenticate_subject
        from vgi_rpc.rpc import AuthContext

        self.jw, self.cw = jw, cw
        self.apikey = "sk-ci-" + "".join(rng.choice("abcdef0123456789") for _ in range(20))
        self.members = {
            "static": bearer_authenticate_static(tokens={self.apikey: AuthContext(domain="apikey", authenticated=True, principal="ci-bot")}),
            "jwt": jw.authenticator("single", "sub")[0],
            "subject": mtls_authenticate_subject(allowed_subjects=frozenset({"svc-a"}), check_expiry=True),
        }
        self.chains: dict = {}
        self.ident = {"apikey": ("static", "ci-bot"), "jwt": ("jwt", jw.sub), "mtls": ("subject", "svc-a")}

    def run(self, case: dict) -> tuple[dict, dict]:
        from vgi_rpc.http import chain_authenticate

        key = tuple(case["ms"])
        if key not in self.chains:
            self.chains[key] = chain_authenticate(*[self.members[m] for m in key])
        fn = self.chains[key]
        hdrs = {}
        az = case["authz"]
        if az != "absent":
            hdrs["Authorization"] = {"apikey_ok": "Bearer " + self.apikey, "apikey_unknown": "Bearer " + self.apikey[:-1] + "!",
                                     "jwt_ok": "Bearer " + self.jw.token("ok")[0], "jwt_expired": "Bearer " + self.jw.token("expired")[0],
                                     "basic": "Basic dXNlcjpwdw=="}[az]
        ch = case["cert"]
        if ch != "absent":
            sub, val = {"a_valid": ("a", "valid"), "b_valid": ("b", "valid"), "a_expired": ("a", "expired"), "garbage": ("a", "valid")}[ch]
            hdrs.update(self.cw.header("garbage" if ch == "garbage" else "quoted", self.cw.cert(sub, val))[0])
        r, got = W.call(fn, W.mkreq(hdrs))
        who = ""
        if got is not None:
            m, p = self.ident.get(got.domain, ("other", None))
            who = m if got.principal == p else "mixed"
        return ({"k": r["k"], "reason": r["reason"], "exc": r["exc"], "who": who, "same": False,
                 "declared": W.declared_members(fn)}, {"headers": {k: v[:40] + "..." for k, v in hdrs.items()}})


# ------------------------------------------------------------------------------------------------ driver
def _sig(case: dict, o: dict) -> dict:
    s = {"fam": case["fam"]}
    for k, v in case.items():
        if isinstance(v, (str, bool, int)):
            s[k] = v
        elif k == "ms":
            s["ms"] = "-".join(v)
        elif k == "cert" and isinstance(v, dict):
            s["cert"] = f"{v['sub']}/{v['val']}"
        elif k == "codes":
            s["codes"] = "-".join(v)
    s["got"] = f"{o.get('k', '')}:{o.get('reason', '') or o.get('exc', '') or o.get('code', '')}"
    return s


def run(ctx: Ctx) -> None:
    W.quiet()
    consts = {"Deep": not ctx.quick, **CONSTS}
    rec = getattr(ctx, "replay_record", None)
    if rec and "case" in rec.get("detail", {}):
        cases = [{"case": rec["detail"]["case"], "exp": rec["detail"].get("exp", {})}]
    else:
        cases = enumerate_cases(ctx, "gate", "AuthFactories", constants=consts, invariants=SANITY)
        ctx.exhaustive = True
    ctx.rule = ("case = one row of a family table of AuthFactories.tla (bearer: header shape x token class x factory/"
                "configuration; combine: a sequence of reason codes; chain: a sequence of member outcomes; ctor: a "
                "constructor call; mtls: header shape x certificate class x check_expiry x factory configuration; jwt: "
                "header shape x token class x issuer/audience configuration x cache primed? x JWKS endpoint behaviour; "
                "realchain: an order of real factories x Authorization class x certificate-header class).  "
                "Non-trivial = distinct (case, concrete variant) executions of the real factory; every chain case also "
                "runs every permutation of its members (counted once).  Note_* / Doc_* clauses are drift")
    ctx.assume("header values reach the factory exactly as written into the WSGI environ (a real server strips optional "
               "whitespace around a value first, so the leading/trailing-space shapes are what a non-stripping gateway delivers)",
               "certificates are self-signed EC P-256 (the factories do no chain validation); validity classes keep a "
               "margin of >= 2 s (expired side) / >= 15 min (valid side) from the wall clock",
               "the JWKS endpoint is a loopback http.server given through jwks_uri; 'refused' = its listener closed")
    nvar = 1 if ctx.quick else 3
    server = W.JwksServer()
    obs: list = []
    try:
        by_fam: dict = {}
        for cj in cases:
            by_fam.setdefault(cj["case"]["fam"], []).append(cj)
        for v in range(nvar):
            bw = W.BearerWorld(ctx.rng)
            for cj in by_fam.get("bearer", []):
                o, conc = run_bearer(cj["case"], bw)
                obs.append((cj, o, conc, v))
            cw = W.CertWorld(ctx.rng, v)
            for cj in by_fam.get("mtls", []):
                o, conc = run_mtls(cj["case"], cw)
                obs.append((cj, o, conc, v))
            jw = W.JwtWorld(ctx.rng, server)
            for cj in by_fam.get("jwt", []):
                o, conc = run_jwt(cj["case"], jw)
                obs.append((cj, o, conc, v))
            if by_fam.get("realchain"):
                rw = RealWorld(ctx.rng, jw, cw)
                for cj in by_fam["realchain"]:
                    o, conc = rw.run(cj["case"])
                    obs.append((cj, o, conc, v))
        for fam, fn in (("combine", run_combine), ("chain", run_chain), ("ctor", run_ctor)):
            for cj in by_fam.get(fam, []):
                o, conc = fn(cj["case"])
                obs.append((cj, o, conc, 0))
    finally:
        server.close()
    seen_fam: set = set()
    nperm = 0
    for cj, o, conc, v in obs:
        ctx.case([cj["case"], v])
        nperm += len(o.get("perms", ()))
        if cj["case"]["fam"] not in seen_fam and cj["case"]["fam"] in ("bearer", "mtls", "jwt", "chain", "realchain") \
                and o.get("k") == "accept" and (cj["case"]["fam"] != "chain" or len(cj["case"]["ms"]) == 3):
            seen_fam.add(cj["case"]["fam"])
            ctx.sample({"abstract_case": cj["case"], "oracle": cj["exp"], "concrete": conc,
                        "observed": {k: x for k, x in o.items() if k != "perms"}})
    ctx.extra["executions_of_permuted_chains"] = nperm
    ctx.extra["cases_per_family"] = {f: sum(1 for cj, *_ in obs if cj["case"]["fam"] == f) for f in
                                     ("bearer", "combine", "chain", "ctor", "mtls", "jwt", "realchain")}
    bad = judge(ctx, "gate", "AuthFactories", [{"case": cj["case"], "obs": o} for cj, o, _c, _v in obs],
                constants={**consts, "Deep": False})
    for idx, clauses in bad:
        cj, o, conc, v = obs[idx]
        for cl in clauses:
            sig = _sig(cj["case"], o)
            detail = {"case": cj["case"], "exp": cj["exp"], "concrete": conc, "observed": {k: x for k, x in o.items() if k != "perms"},
                      "variant": v}
            if cl.startswith(("Note_", "Doc_")):
                ctx.drift.append({"clause": cl, "sig": sig, "detail": detail})
            else:
                ctx.violation(cl, sig, detail)
    ctx.extra["doc_observations_not_judged_as_violations"] = [
        "mtls_authenticate_fingerprint(domain=...) is documented as 'Domain string for the returned AuthContext' but the "
        "factory returns the mapped AuthContext unchanged (Dev_FingerprintDomainParamIgnored)",
        "jwt_authenticate lets JWKS transport errors (connection refused, HTTP 5xx/4xx) out as raw httpx2 exceptions -> the "
        "middleware answers 500, where AuthUnavailableError's docstring asks for AuthUnavailableError -> 503 (Dev_JwksOutageRaw)",
        "the Bearer scheme is matched case-sensitively ('bearer x' is invalid_credential; RFC 7235 schemes are case-insensitive)",
    ]
