"""Standalone reproductions (plain real code, no scheduler, no model) of the C32 / C33 findings.

    cd /verif && PYTHONPATH=/repo:/verif /venv/bin/python -m drivers._conc2_repro [pool0|poolsession|poolintr|inode|idle|all]

pool0        C32-F1  WorkerPool(max_idle=0) keeps one idle worker
poolsession  C32-F2  a stream abandoned before a cleanly closed one: the worker is reused, the next borrower's call fails
inode        C33-F2  an exiting worker's late unlink removes its successor's socket when the inode number is reused
                     (calls the helpers in the order the shipped serve_unix does: close, [launcher + successor], unlink --
                     it shows the mechanism, so it "reproduces" on a fixed tree as well)
poolintr     C32-F3  a unary call interrupted by an on_log callback that raises BrokenPipeError / KeyboardInterrupt: the
                     worker goes back to the pool with the rest of the response unread; the next borrower's call fails
idle         C33-F1  a connection accepted right after the idle timer fired is served by a worker that stops accepting
                     (real sockets, real time: ~12 s)
"""
import os
import socket
import sys
import tempfile
import threading
import time
import warnings

warnings.filterwarnings("ignore")


def pool0() -> bool:
    from drivers._conc2_poolsvc import PoolSvc, worker_cmd
    from vgi_rpc.pool import WorkerPool

    os.environ["PYTHONPATH"] = os.pathsep.join(p for p in sys.path if p)
    with WorkerPool(max_idle=0) as pool:
        with pool.connect(PoolSvc, worker_cmd()) as svc:
            p1 = svc.pid()
        idle = pool.idle_count
        with pool.connect(PoolSvc, worker_cmd()) as svc:
            p2 = svc.pid()
    print(f"pool0: max_idle=0, idle_count after one return = {idle} (statement: <= 0); next borrower reused pid: {p1 == p2}")
    return idle > 0


def poolsession() -> bool:
    from drivers._conc2_poolsvc import PoolSvc, worker_cmd
    from vgi_rpc.pool import WorkerPool

    os.environ["PYTHONPATH"] = os.pathsep.join(p for p in sys.path if p)
    with WorkerPool(max_idle=2) as pool:
        with pool.connect(PoolSvc, worker_cmd()) as svc:
            p1 = svc.pid()
            s1 = svc.count(tag=1, n=5, logs=0)
            s1.tick()                      # ... and walk away from s1
            s2 = svc.count(tag=2, n=5, logs=0)
            s2.close()                     # the *last* session is closed
        idle = pool.idle_count
        try:
            with pool.connect(PoolSvc, worker_cmd()) as svc:
                t = svc._transport._inner.proc.pid
                got = svc.echo(x=7001)
            out = f"echo(7001) -> {got}"
            bad = got != 7001
        except Exception as e:  # noqa: BLE001
            out = f"{type(e).__name__}: {str(e)[:100]}"
            bad = True
            t = p1
    print(f"poolsession: worker {p1} kept idle = {idle == 1}; next borrower (worker {t}): {out}")
    return bad and idle == 1


def poolintr() -> bool:
    from drivers._conc2_poolsvc import PoolSvc, worker_cmd
    from vgi_rpc.pool import WorkerPool

    os.environ["PYTHONPATH"] = os.pathsep.join(p for p in sys.path if p)
    hit = False
    for exc in (BrokenPipeError("stdout is gone"), KeyboardInterrupt()):
        armed = [True]

        def on_log(msg, exc=exc, armed=armed):
            if armed[0]:
                raise exc                      # e.g. print(msg) on a closed stdout / Ctrl-C while the call is in flight

        with WorkerPool(max_idle=2) as pool:
            try:
                with pool.connect(PoolSvc, worker_cmd(), on_log=on_log) as svc:
                    p1 = svc._transport._inner.proc.pid
                    svc.echo_log(x=5, logs=3)
            except BaseException as e:  # noqa: BLE001
                first = type(e).__name__
            idle = pool.idle_count
            try:
                with pool.connect(PoolSvc, worker_cmd()) as svc:
                    p2 = svc._transport._inner.proc.pid
                    out = f"echo(7001) -> {svc.echo(x=7001)}"
                    bad = False
            except Exception as e:  # noqa: BLE001
                out, bad, p2 = f"{type(e).__name__}: {str(e)[:70]}", True, p1
        print(f"poolintr[{type(exc).__name__}]: first borrower saw {first}; worker {p1} kept idle: {idle == 1}; "
              f"next borrower (worker {p2}): {out}")
        hit = hit or (bad and idle == 1)
    return hit


def inode() -> bool:
    import vgi_rpc.launcher as L
    import vgi_rpc.rpc._transport as T

    d = tempfile.mkdtemp(prefix="c33r", dir="/tmp")
    p = os.path.join(d, "w.sock")
    w1 = socket.socket(socket.AF_UNIX)
    w1.bind(p)
    w1.listen(4)
    ident = (os.lstat(p).st_dev, os.lstat(p).st_ino)       # serve_unix: bound_identity
    w1.close()                                             # serve_unix finally: sock.close() ...
    L._unlink_stale_socket(p)                              # a launcher: probe failed -> unlink the stale entry
    w2 = socket.socket(socket.AF_UNIX)                     # ... spawns worker 2, which binds the same path
    w2.bind(p)
    w2.listen(4)
    reused = os.lstat(p).st_ino == ident[1]
    T._unlink_bound_unix_socket(p, ident)                  # ... then worker 1 reaches _unlink_bound_unix_socket
    gone = not os.path.exists(p)
    print(f"inode: filesystem reused the inode number: {reused}; worker 2 is listening but its path exists: {not gone}; "
          f"launcher _probe -> {L._probe(p)}")
    w2.close()
    return gone


def idle() -> bool:
    from drivers._conc2_poolsvc import make_server
    from vgi_rpc.rpc import serve_unix

    d = tempfile.mkdtemp(prefix="c33r", dir="/tmp")
    p = os.path.join(d, "w.sock")
    ended = threading.Event()
    th = threading.Thread(target=lambda: (serve_unix(make_server(), p, threaded=True, idle_timeout=1.0), ended.set()), daemon=True)
    th.start()
    while not os.path.exists(p):
        time.sleep(0.01)
    c = socket.socket(socket.AF_UNIX)
    c.connect(p)
    c.close()                                  # first client comes and goes: the 1 s idle timer starts now
    t0 = time.time()
    for attempt in range(200):                 # connect just after the timer fires, before the 0.5 s accept poll sees it
        time.sleep(max(0.0, t0 + 1.25 - time.time()))   # timer fires at ~t0+1.0, next accept poll at ~t0+1.5
        c = socket.socket(socket.AF_UNIX)
        try:
            c.connect(p)
            break
        except OSError:
            c.close()
            print("idle: missed the window (the loop polled first); rerun")
            return False
    t1 = time.time()
    ended.wait(15)
    print(f"idle: second client connected {t1 - t0:.2f}s after going idle and is still connected; "
          f"serve_unix returned (worker would exit) after {time.time() - t0:.1f}s: {ended.is_set()}")
    c.close()
    return ended.is_set()


if __name__ == "__main__":
    which = sys.argv[1] if len(sys.argv) > 1 else "all"
    fns = {"pool0": pool0, "poolsession": poolsession, "poolintr": poolintr, "inode": inode, "idle": idle}
    for k, f in fns.items():
        if which in (k, "all"):
            print(f"  -> reproduced: {f()}", flush=True)
    os._exit(0)      # (pyarrow daemon threads make interpreter teardown noisy)
