"""Parser for TLA+ values as TLC prints them (states in dot dumps, counterexamples, simulate files).

Maps: records/functions -> dict, sequences -> list, sets -> frozenset (of hashable conversions),
strings -> str, ints -> int, TRUE/FALSE -> bool, model values / identifiers -> str.
"""
from __future__ import annotations

import re

_TOK = re.compile(r'\s*(<<|>>|\|->|:>|@@|\[|\]|\{|\}|\(|\)|,|"(?:[^"\\]|\\.)*"|-?\d+|[A-Za-z_][A-Za-z0-9_!]*)')


class Frozen(dict):
    def __hash__(self):  # type: ignore[override]
        return hash(tuple(sorted((k, _h(v)) for k, v in self.items())))


def _h(v):
    if isinstance(v, list):
        return tuple(_h(x) for x in v)
    if isinstance(v, dict):
        return tuple(sorted((k, _h(x)) for k, x in v.items()))
    return v


def _freeze(v):
    if isinstance(v, list):
        return tuple(_freeze(x) for x in v)
    if isinstance(v, dict):
        return Frozen({k: _freeze(x) for k, x in v.items()})
    return v


class _P:
    def __init__(self, s: str) -> None:
        self.toks = _TOK.findall(s)
        rest = _TOK.sub("", s).strip()
        if rest:
            raise ValueError(f"untokenizable TLA value: {rest[:40]!r} in {s[:80]!r}")
        self.i = 0

    def peek(self):
        return self.toks[self.i] if self.i < len(self.toks) else None

    def eat(self, t=None):
        x = self.toks[self.i]
        if t is not None and x != t:
            raise ValueError(f"expected {t} got {x}")
        self.i += 1
        return x

    def value(self):
        v = self.atom()
        # function merge a :> b @@ c :> d
        if self.peek() == ":>":
            d = {}
            k = v
            while True:
                self.eat(":>")
                d[_key(k)] = self.atom()
                if self.peek() == "@@":
                    self.eat()
                    k = self.atom()
                else:
                    break
            return d
        return v

    def atom(self):
        t = self.eat()
        if t == "<<":
            out = []
            while self.peek() != ">>":
                out.append(self.value())
                if self.peek() == ",":
                    self.eat()
            self.eat(">>")
            return out
        if t == "{":
            out = []
            while self.peek() != "}":
                out.append(self.value())
                if self.peek() == ",":
                    self.eat()
            self.eat("}")
            return frozenset(_freeze(x) for x in out)
        if t == "[":
            d = {}
            while self.peek() != "]":
                k = self.eat()
                self.eat("|->")
                d[k] = self.value()
                if self.peek() == ",":
                    self.eat()
            self.eat("]")
            return d
        if t == "(":
            v = self.value()
            self.eat(")")
            return v
        if t.startswith('"'):
            return bytes(t[1:-1], "utf-8").decode("unicode_escape") if "\\" in t else t[1:-1]
        if re.fullmatch(r"-?\d+", t):
            return int(t)
        if t == "TRUE":
            return True
        if t == "FALSE":
            return False
        return t  # model value


def _key(k):
    return k if isinstance(k, (str, int, bool)) else str(k)


def parse_value(s: str):
    p = _P(s)
    v = p.value()
    if p.peek() is not None:
        raise ValueError(f"trailing tokens in {s[:80]!r}")
    return v


def parse_state(text: str) -> dict:
    """Parse a conjunction '/\\ x = v /\\ y = w' (newline separated) into {var: value}."""
    text = text.strip()
    parts = re.split(r"(?:^|\n)\s*/\\ ", "\n" + text)
    out = {}
    for p in parts:
        p = p.strip()
        if not p:
            continue
        m = re.match(r"([A-Za-z_][A-Za-z0-9_]*) = (.*)$", p, re.S)
        if not m:
            raise ValueError(f"bad state conjunct: {p[:80]!r}")
        out[m.group(1)] = parse_value(m.group(2))
    return out


def jsonable(v):
    if isinstance(v, (frozenset, set)):
        return sorted((jsonable(x) for x in v), key=lambda z: str(z))
    if isinstance(v, (list, tuple)):
        return [jsonable(x) for x in v]
    if isinstance(v, dict):
        return {str(k): jsonable(x) for k, x in v.items()}
    return v
