------------------------------------ MODULE LogContent ------------------------------------
(* C08 (a), content half -- "with its level, text and extra fields preserved": the product of what a method can pass
   to client_log / emit_client_log, each emitted once at every kind of emission point and carried over both transports.

     lvl    ERROR | WARN | INFO | DEBUG | TRACE          (EXCEPTION is the wire's error marker, not a log level a
                                                          method logs at)
     txt    "ascii" | "empty" | "unicode" | "multiline" | "jsonish" | "long"
     extra  "none" | "plain" | "many" | "unicode" | "emptykey" | "level" | "message" | "self" | "both"
            ("level" / "message" / "self" are extras named like Message's own arguments; a Python method sets them
            through Message.extra, a non-Python server simply writes them)
     at     "unary" (before the result) | "init" (method body of a stream, no header) | "init_hdr" (method body, header
            declared: travels in the header stream) | "pre_prod" / "pre_exch" (in a process() step of a producer /
            an exchange, before the batch) | "post_prod" / "post_exch" (in a step, after the batch, the caller then takes
            another turn) | "tail_prod" / "tail_exch" (after the batch of the LAST turn the caller takes: the message is
            met only while the caller leaves the session) | "prefail_prod" / "prefail_exch" (in a step that then raises,
            nothing emitted) | "postfail_prod" / "postfail_exch" (in a step that emitted its batch, AFTER out.emit(), and
            then raises): a failed step delivers every message it logged ahead of the error (and never its data batch)
     exit   how the caller leaves a session whose last turn has a tail message: "close" | "cancel" | "with" (__exit__);
            "close" everywhere else
     tr     "pipe" | "http"
     via    the entry point the method logs through: "ctx" (CallContext.client_log / emit_client_log) | "out" (inside a
            process() step: OutputCollector.client_log / emit_client_log_message) -- crossed with every level, extra class,
            step emission point and exit, one text class
     route  which server branch writes the step's output (_flush_collector / the HTTP producer turn):
            "inline" | "shm" (socket transport with a shared-memory side channel; the data batch is large enough to
            travel through the segment, log batches stay on the pipe) | "ext" (an external-storage configuration is
            present, its threshold is not reached) | "buf" (HTTP with max_response_bytes: a producer's turns are
            buffered into one response).  Routes are orthogonal to the message's content, so the non-inline routes
            are crossed with every extra class, emission point and exit but one level / text class.
   Every case must be delivered exactly once with level, text and user extras equal to what was emitted.             *)
EXTENDS Naturals, Sequences, FiniteSets

Lvls == {"ERROR", "WARN", "INFO", "DEBUG", "TRACE"}
Txts == {"ascii", "empty", "unicode", "multiline", "jsonish", "long"}
Extras == {"none", "plain", "many", "unicode", "emptykey", "level", "message", "self", "both"}
FailAts == {"prefail_prod", "prefail_exch", "postfail_prod", "postfail_exch"}
Ats == {"unary", "init", "init_hdr", "pre_prod", "post_prod", "pre_exch", "post_exch", "tail_prod", "tail_exch"} \cup FailAts
Tails == {"tail_prod", "tail_exch"}
Exits == {"close", "cancel", "with"}
Routes == {"inline", "shm", "ext", "buf"}
ProdAts == {"init", "init_hdr", "pre_prod", "post_prod", "tail_prod", "prefail_prod", "postfail_prod"}
StepAts == {"pre_prod", "post_prod", "pre_exch", "post_exch", "tail_prod", "tail_exch"} \cup FailAts
Cases == {c \in [lvl : Lvls, txt : Txts, extra : Extras, at : Ats, tr : {"pipe", "http"}, exit : Exits, route : Routes,
                 via : {"ctx", "out"}] :
             /\ c.at \notin Tails => c.exit = "close"
             /\ c.via = "out" => (c.at \in StepAts /\ c.txt = "ascii" /\ c.route = "inline")
             /\ c.route # "inline" => (c.lvl = "INFO" /\ c.txt = "ascii")
             /\ c.route = "shm" => c.tr = "pipe"
             /\ c.route = "buf" => (c.tr = "http" /\ c.at \in ProdAts)}
\* a socket session reads its output to the end when it is left, whatever the way out; over HTTP a response is read
\* completely when it arrives.  Either way the message has been delivered once the caller has left the session.
MustDeliver(c) == TRUE
Expected(c) == [delivered |-> IF MustDeliver(c) THEN 1 ELSE 0, intact |-> TRUE]

ReservedNames(c) == c.extra \in {"level", "message", "self", "both"}
AlwaysDelivered(c) == (MustDeliver(c) <=> Expected(c).delivered = 1) /\ Expected(c).intact
OnlyHttpProducerTailMayBeLost(c) == MustDeliver(c)

ExpectError(c) == c.at \in FailAts        \* the call ends with the step's error (that is its "payload")

(* o = [failed, errored, delivered, level_ok, text_ok, extra_ok, before_payload]
     failed: anything went wrong that the case does not call for;  errored: the server-side error reached the caller
     before_payload: the callback ran before the result / batch the message precedes was returned to the caller
     (a message logged after the batch precedes the NEXT item: not asserted for the two post emission points)                  *)
Conforms(c, o) ==
       {"CallSucceeds"   : x \in {1} \cap (IF ~o.failed /\ (o.errored <=> ExpectError(c)) THEN {} ELSE {1})}
  \cup {"DeliveredOnce"  : x \in {1} \cap (IF o.failed \/ o.delivered = 1 \/ (~MustDeliver(c) /\ o.delivered = 0) THEN {} ELSE {1})}
  \cup {"LevelPreserved" : x \in {1} \cap (IF o.delivered >= 1 => o.level_ok THEN {} ELSE {1})}
  \cup {"TextPreserved"  : x \in {1} \cap (IF o.delivered >= 1 => o.text_ok THEN {} ELSE {1})}
  \cup {"ExtraPreserved" : x \in {1} \cap (IF o.delivered >= 1 => o.extra_ok THEN {} ELSE {1})}
  \cup {"BeforeWhatItPrecedes" : x \in {1} \cap (IF (o.delivered >= 1 /\ c.at \notin {"post_prod", "post_exch"} \cup Tails) => o.before_payload THEN {} ELSE {1})}
============================================================================================
