---------------------------------- MODULE Status ----------------------------------
(* C15 -- HTTP status codes and body shapes on the RPC routes, as a decision table.

   A request is abstracted to

     route   "unary" (POST /{m}) | "init" (POST /{m}/init) | "exchange" (POST /{m}/exchange)
     meth    "known" (exists, kind fits the route, succeeds) | "failing" (exists, fits, raises when dispatched)
             | "unknown" | "mismatched" (stream method on the unary route / unary method on a stream route)
     body    "valid" | "corrupted" | "truncated" | "empty" | "wrong_md" (method name missing or different from the
             URL, request version missing or wrong) | "bad_params" (column missing / extra / wrong type / row count)
             | "bad_version" (protocol_version the server refuses)
     ctype   "correct" | "wrong" | "missing"
     cenc    "none" | "supported" (zstd / gzip, properly encoded) | "unsupported" | "corrupt" (a supported token on
             a body that does not decode)
     token   "valid" | "tampered" | "missing" | "na"         (state token; exchange route only)
     auth    "none" (no authenticator) | "accept" | "reject"
     size    "ok" | "over" (wire body larger than max_request_bytes)

   Faults and the status the statement attaches to each (the pipeline order of the implementation -- size cap,
   content decoding, authentication, content type, method resolution, method kind, request reading, gates --
   is *not* part of the statement, so rows with several faults admit the status of any of them, DESIGN 7a):

       size over                                   413        ctype wrong / missing          415
       cenc unsupported                            415        meth unknown                   404
       cenc corrupt                                400        meth mismatched                400
       auth reject                                 401        body not valid                 400
       token tampered / missing                    400

   No fault: the call is dispatched, the status is 200 and the error marker is present exactly when the method
   raised.  Never a 5xx.  Every response other than 401 and 415 has a decodable Arrow IPC body.               *)
EXTENDS Naturals, Sequences, FiniteSets

Routes == {"unary", "init", "exchange"}
Meths == {"known", "failing", "unknown", "mismatched"}
Bodies == {"valid", "corrupted", "truncated", "empty", "wrong_md", "bad_params", "bad_version"}
CTypes == {"correct", "wrong", "missing"}
CEncs == {"none", "supported", "unsupported", "corrupt"}
Tokens == {"valid", "tampered", "missing", "na"}
Auths == {"none", "accept", "reject"}
Sizes == {"ok", "over"}

Valid(c) ==
  /\ (c.route = "exchange") <=> (c.token # "na")
  \* an exchange request carries no method name / version / parameters of its own: its metadata is the token
  /\ c.route = "exchange" => c.body \in {"valid", "corrupted", "truncated", "empty"}
  \* when the coding itself is the fault the underlying body is irrelevant
  /\ c.cenc = "corrupt" => c.body = "valid"
  \* an empty body cannot be oversize
  /\ c.size = "over" => c.body # "empty"

Space == [route : Routes, meth : Meths, body : Bodies, ctype : CTypes, cenc : CEncs, token : Tokens,
          auth : Auths, size : Sizes]
Seeds == {[route |-> r, meth |-> m, body |-> "valid", ctype |-> "correct", cenc |-> "none", token |-> "na",
           auth |-> a, size |-> "ok"] : r \in Routes, m \in Meths, a \in Auths}
Expand(p) == {c \in Space : c.route = p.route /\ c.meth = p.meth /\ c.auth = p.auth /\ Valid(c)}
Cases == UNION {Expand(p) : p \in Seeds}

\* ---------------------------------------------------------------- the mapping
Flag(name, cond) == IF cond THEN {name} ELSE {}
Faults(c) ==
       Flag("oversize", c.size = "over")
  \cup Flag("coding", c.cenc = "unsupported")
  \cup Flag("undecodable", c.cenc = "corrupt")
  \cup Flag("auth", c.auth = "reject")
  \cup Flag("ctype", c.ctype # "correct")
  \cup Flag("unknown", c.meth = "unknown")
  \cup Flag("kind", c.meth = "mismatched")
  \cup Flag("body", c.body # "valid")
  \cup Flag("token", c.token \in {"tampered", "missing"})

StatusOf(f) == CASE f = "oversize" -> 413 [] f = "coding" -> 415 [] f = "undecodable" -> 400 [] f = "auth" -> 401
                 [] f = "ctype" -> 415 [] f = "unknown" -> 404 [] f = "kind" -> 400 [] f = "body" -> 400
                 [] f = "token" -> 400

Admissible(c) == IF Faults(c) = {} THEN {200} ELSE {StatusOf(f) : f \in Faults(c)}
Dispatched(c) == Faults(c) = {}
Failed(c) == Dispatched(c) /\ c.meth = "failing"
ArrowBody(status) == status \notin {401, 415}

SetToSeq(S) == LET RECURSIVE Build(_)
                   Build(T) == IF T = {} THEN <<>>
                               ELSE LET m == CHOOSE x \in T : \A y \in T : x <= y IN <<m>> \o Build(T \ {m})
               IN Build(S)
Expected(c) == [statuses |-> SetToSeq(Admissible(c)), dispatched |-> Dispatched(c), marker |-> Failed(c),
                faults |-> Cardinality(Faults(c))]

\* ---------------------------------------------------------------- table sanity (TLC, every row)
No5xxRow(c) == \A s \in Admissible(c) : s < 500
NeverEmpty(c) == Admissible(c) # {}
OnlyMappedStatuses(c) == Admissible(c) \subseteq {200, 400, 401, 404, 413, 415}
TwoHundredIffClean(c) == (200 \in Admissible(c)) <=> (Faults(c) = {})
MarkerOnlyOnDispatch(c) == Failed(c) => Dispatched(c)
SingleFaultExact(c) == Cardinality(Faults(c)) = 1 => Cardinality(Admissible(c)) = 1
ArrowExceptions(c) == \A s \in Admissible(c) : ~ArrowBody(s) <=> s \in {401, 415}
AuthIndependentOfRoute(c) == (c.auth = "reject") => 401 \in Admissible(c)

\* ---------------------------------------------------------------- judging what the real code did
(* observation o = [status, marker, arrow, errbatch, dispatched]
     status      HTTP status
     marker      X-VGI-RPC-Error: true present
     arrow       the body is one or more complete, decodable Arrow IPC streams
     errbatch    ... and one of them carries an EXCEPTION batch
     dispatched  the implementation method (unary / init) or the stream state's process() (exchange) ran      *)
Conforms(c, o) ==
       Flag("Status", o.status \notin Admissible(c))
  \cup Flag("No5xx", o.status >= 500)
  \cup Flag("DispatchIffClean", o.dispatched # Dispatched(c))
  \cup Flag("MarkerIffFailed", o.status = 200 /\ (o.marker # Failed(c)))
  \cup Flag("MarkerOnly200", o.status # 200 /\ o.marker)
  \cup Flag("ErrorBatchIffFailed", o.status = 200 /\ o.arrow /\ (o.errbatch # Failed(c)))
  \cup Flag("BodyIsArrow", ArrowBody(o.status) /\ ~o.arrow)
=====================================================================================
