---------------------------------- MODULE Describe ----------------------------------
(* C39 -- __describe__ is faithful and the protocol hash is a stable identity.

   A service definition is a record; Payload(d) is the language-neutral describe payload the statement
   lists (protocol name; per method: name, kind, has_return, parameter / result / header schemas, header
   and exchange flags).  Edits are single-point changes of a definition or of its environment.  Each
   edit kind is classified ONCE in the table Wire (relevant / irrelevant / either); the table-sanity
   invariants tie that classification to Payload: relevant edits change the payload, irrelevant ones do
   not (DESIGN 7a: an edit is wire-relevant iff it changes a field of the describe payload).

       hash(d') = hash(d)  <=>  the edit is not wire-relevant          describe(d) = Payload(d)            *)
EXTENDS Naturals, Sequences, FiniteSets

CONSTANTS Types,       \* subset of AllTypes used as the type of a single parameter in this run
          Types2,      \* subset used where parameter lists are crossed with result types / headers / two parameters
          RetTypes     \* subset used for unary result types (a top-level dataclass RESULT is left out: how `-> Dc` is
                       \* materialised is a matter of the type mapping, C02/C06, not of describe's faithfulness)

(* Every construct rpc_methods() / build_describe_batch() / compute_protocol_hash() reads from a Protocol class:
   the class name; each public callable's name; its return annotation (None | T | Optional[T] | Stream | Stream[S] |
   Stream[S, H]); the base class of S (ProducerState / ExchangeState / raw StreamState); whether H is an
   ArrowSerializableDataclass and its ARROW_SCHEMA (possibly with NO fields); every parameter's name, order, annotation
   (plain type, Optional in its three spellings, Annotated with and without ArrowType, NewType, Enum, list / dict /
   frozenset generics, nested and top-level dataclasses, an empty dataclass, pa.RecordBatch), default and kind
   (positional-or-keyword / keyword-only); docstrings (absent, summary, Args: section); the protocol_version ClassVar;
   inherited methods, private members and non-callable attributes (skipped); the defining module.                  *)
AllTypes == {"int", "i32", "str", "float", "bool", "bytes", "list_int", "dc",
             "enum", "dict", "fset", "list_dc", "list_opt", "newtype", "dc0", "ann_int", "batch"}
\* the Arrow type a Python annotation is carried as
ArrowOf(t) == CASE t = "int" -> "int64" [] t = "i32" -> "int32" [] t = "str" -> "utf8" [] t = "float" -> "float64"
                [] t = "bool" -> "bool" [] t = "bytes" -> "binary" [] t = "list_int" -> "list<int64>"
                [] t = "dc" -> "binary"            \* a top-level ArrowSerializableDataclass travels as one IPC blob
                [] t = "dc0" -> "binary"           \* ... also one with no fields
                [] t = "batch" -> "binary"         \* pa.RecordBatch
                [] t = "enum" -> "dict<int16,utf8>"
                [] t = "dict" -> "map<utf8,int64>" \* dict[str, int]
                [] t = "fset" -> "list<int64>"     \* frozenset[int]
                [] t = "list_opt" -> "list<int64>" \* list[Optional[int]]
                [] t = "list_dc" -> "list<struct>" \* list[Dc]: nested dataclasses are structs
                [] t = "newtype" -> "int64"        \* NewType("UserId", int)
                [] t = "ann_int" -> "int64"        \* Annotated[int, "a note"]  (no ArrowType)

\* stream kinds by what the return annotation says about the state: ProducerState (is_exchange false), ExchangeState
\* (true), a state deriving from raw StreamState (null), and bare `Stream` without parameters (null, never a header)
Kinds   == {"unary_void", "unary_ret", "producer", "exchange", "rawstream", "barestream"}
Streams == {"producer", "exchange", "rawstream", "barestream"}
Hdrs    == {"none", "h0", "h1", "h2"}  \* h1, h2: two header dataclasses differing in ONE field's nullability;
                                       \* h0: a header dataclass with NO fields (declared header, empty schema)
HdrsOf(k) == IF k = "barestream" THEN {"none"} ELSE IF k \in Streams THEN Hdrs ELSE {"none"}
P(n, t, nul, dflt) == [n |-> n, t |-> t, nul |-> nul, dflt |-> dflt]      \* dflt: "none" | "d1" | "d2"
NoRet == [t |-> "int", nul |-> FALSE]                                       \* canonical filler when kind # unary_ret

\* ---------------------------------------------------------------- base definitions
OneParam(T)  == {<<P("a", t, nul, df)>> : t \in T, nul \in BOOLEAN, df \in {"none", "d1"}}
TwoParams(T) == {<<P("a", t, nul, "none"), P("b", "str", FALSE, df)>> : t \in T, nul \in BOOLEAN, df \in {"none", "d1"}}
ParamLists == {<<>>} \cup OneParam(Types) \cup TwoParams(Types2)       \* every parameter type on its own
SmallLists == {<<>>} \cup OneParam(Types2) \cup TwoParams(Types2)      \* the lists crossed with result types and headers
\* kw: parameters are keyword-only;  osp: how Optional is spelled (Optional[T] | T|None | None|T);  doc: "nodoc" | d0 | d1 | d2
Method(k, ps, r, h) == [name |-> "m1", kind |-> k, params |-> ps, ret |-> r, hdr |-> h, st |-> "s1", doc |-> "d0",
                        kw |-> FALSE, osp |-> "opt"]
Methods == {Method("unary_void", ps, NoRet, "none") : ps \in ParamLists}
      \cup {Method("unary_ret", ps, [t |-> t, nul |-> nul], "none") : ps \in SmallLists, t \in RetTypes, nul \in BOOLEAN}
      \cup {Method(k, ps, NoRet, "none") : k \in Streams, ps \in ParamLists}
      \cup UNION {{Method(k, ps, NoRet, h) : ps \in SmallLists, h \in HdrsOf(k)} : k \in Streams}
\* inherit: m1 is declared on a base Protocol;  private: the class also has a _helper method and a ClassVar attribute;
\* module: name of the defining module
Def(m) == [pname |-> "SvcA", pdoc |-> "d0", version |-> "v120", second |-> TRUE, order |-> "12", inherit |-> FALSE,
           private |-> FALSE, module |-> "mod_a", m |-> m]
BaseDefs == {Def(m) : m \in Methods}

\* ---------------------------------------------------------------- edits
EnvEdits == {"server_id", "process", "impl_swap", "rebuild", "server_version"}      \* the definition itself is untouched
Ed(e, arg) == [e |-> e, arg |-> arg]
Last(s) == s[Len(s)]
HasNullable(m) == (\E i \in 1..Len(m.params) : m.params[i].nul) \/ (m.kind = "unary_ret" /\ m.ret.nul)
Edits(d) ==
  LET m == d.m IN
       {Ed(e, "-") : e \in EnvEdits}
  \cup {Ed("rename_protocol", "-"), Ed("protocol_doc", "-"), Ed("method_doc", "-"), Ed("remove_doc", "-"), Ed("rename_method", "-"),
        Ed("toggle_second", "-"), Ed("version", "v130"), Ed("version", "none"), Ed("inherit", "-"), Ed("private_members", "-"),
        Ed("module_name", "-")}
  \cup (IF d.second THEN {Ed("swap_method_order", "-")} ELSE {})
  \cup {Ed("kind", k) : k \in Kinds \ {m.kind}}
  \cup (IF m.kind \in Streams \ {"barestream"} THEN {Ed("header", h) : h \in Hdrs \ {m.hdr}} \cup {Ed("state_class", "-")} ELSE {})
  \cup (IF m.kind = "unary_ret" THEN {Ed("retype_ret", t) : t \in RetTypes \ {m.ret.t}} \cup {Ed("flip_null_ret", "-")} ELSE {})
  \cup (IF HasNullable(m) THEN {Ed("optional_spelling", "pipe"), Ed("optional_spelling", "rpipe")} ELSE {})
  \cup (IF Len(m.params) >= 1
        THEN {Ed("retype_param", t) : t \in Types \ {m.params[1].t}}
             \cup {Ed("rename_param", "-"), Ed("flip_null_param", "-"), Ed("remove_param", "-"), Ed("default", "-"), Ed("param_doc", "-"),
                   Ed("keyword_only", "-")}
        ELSE {})
  \cup (IF Len(m.params) <= 1 THEN {Ed("add_param", "-")} ELSE {Ed("swap_params", "-")})

WithM(d, m) == [d EXCEPT !.m = m]
Apply(d, ed) ==
  LET m == d.m  e == ed.e IN
  CASE e \in EnvEdits        -> d
    [] e = "rename_protocol" -> [d EXCEPT !.pname = "SvcB"]
    [] e = "protocol_doc"    -> [d EXCEPT !.pdoc = "d1"]
    [] e = "method_doc"      -> WithM(d, [m EXCEPT !.doc = "d1"])
    [] e = "remove_doc"      -> WithM(d, [m EXCEPT !.doc = "nodoc"])
    [] e = "param_doc"       -> WithM(d, [m EXCEPT !.doc = "d2"])           \* d2 = same summary, different Args: text
    [] e = "rename_method"   -> WithM(d, [m EXCEPT !.name = "m9"])
    [] e = "toggle_second"   -> [d EXCEPT !.second = ~d.second]
    [] e = "swap_method_order" -> [d EXCEPT !.order = "21"]
    [] e = "version"         -> [d EXCEPT !.version = ed.arg]
    [] e = "inherit"         -> [d EXCEPT !.inherit = TRUE]
    [] e = "private_members" -> [d EXCEPT !.private = TRUE]
    [] e = "module_name"     -> [d EXCEPT !.module = "mod_b"]
    [] e = "optional_spelling" -> WithM(d, [m EXCEPT !.osp = ed.arg])
    [] e = "keyword_only"    -> WithM(d, [m EXCEPT !.kw = TRUE])
    [] e = "kind"            -> WithM(d, [m EXCEPT !.kind = ed.arg,
                                                   !.ret = IF ed.arg = "unary_ret" THEN [t |-> "str", nul |-> FALSE] ELSE NoRet,
                                                   !.hdr = IF ed.arg \in Streams \ {"barestream"} THEN m.hdr ELSE "none"])
    [] e = "header"          -> WithM(d, [m EXCEPT !.hdr = ed.arg])
    [] e = "state_class"     -> WithM(d, [m EXCEPT !.st = "s2"])
    [] e = "retype_ret"      -> WithM(d, [m EXCEPT !.ret.t = ed.arg])
    [] e = "flip_null_ret"   -> WithM(d, [m EXCEPT !.ret.nul = ~m.ret.nul])
    [] e = "retype_param"    -> WithM(d, [m EXCEPT !.params[1].t = ed.arg])
    [] e = "rename_param"    -> WithM(d, [m EXCEPT !.params[1].n = "z"])
    [] e = "flip_null_param" -> WithM(d, [m EXCEPT !.params[1].nul = ~m.params[1].nul])
    [] e = "remove_param"    -> WithM(d, [m EXCEPT !.params = SubSeq(m.params, 1, Len(m.params) - 1)])
    [] e = "add_param"       -> WithM(d, [m EXCEPT !.params = Append(m.params, P("c", "int", FALSE,
                                                     IF Len(m.params) >= 1 /\ Last(m.params).dflt # "none" THEN "d1" ELSE "none"))])
    [] e = "swap_params"     -> WithM(d, [m EXCEPT !.params = <<[m.params[2] EXCEPT !.dflt = "none"], [m.params[1] EXCEPT !.dflt = m.params[2].dflt]>>])
    [] e = "default"         -> WithM(d, [m EXCEPT !.params[Len(m.params)].dflt = IF Last(m.params).dflt = "none" THEN "d1" ELSE "d2"])

CasesOf(d) == {[d |-> d, ed |-> ed] : ed \in Edits(d)}
Cases(z) == UNION {CasesOf(d) : d \in BaseDefs}      \* enumerated as  \E d \in BaseDefs : c \in CasesOf(d)

\* ---------------------------------------------------------------- the describe payload of a definition
Field(p) == [n |-> p.n, arrow |-> ArrowOf(p.t), nul |-> p.nul]
FieldsOf(ps) == [i \in 1..Len(ps) |-> Field(ps[i])]
MethodPayload(m) ==
  [name |-> m.name,
   mtype |-> IF m.kind \in Streams THEN "stream" ELSE "unary",
   has_return |-> m.kind = "unary_ret",
   params |-> FieldsOf(m.params),
   result |-> IF m.kind = "unary_ret" THEN <<[n |-> "result", arrow |-> ArrowOf(m.ret.t), nul |-> m.ret.nul]>> ELSE <<>>,
   has_header |-> m.kind \in Streams /\ m.hdr # "none",          \* declared, even when the header schema has no fields
   header |-> IF m.kind \in Streams THEN m.hdr ELSE "none",
   is_exchange |-> IF m.kind = "exchange" THEN "true" ELSE IF m.kind = "producer" THEN "false" ELSE "null"]   \* raw / bare: unknown
\* the fixed second method  zz(x: int) -> int ; rows are sorted by name and "m1" < "m9" < "zz"
Second == [name |-> "zz", mtype |-> "unary", has_return |-> TRUE, params |-> <<[n |-> "x", arrow |-> "int64", nul |-> FALSE]>>,
           result |-> <<[n |-> "result", arrow |-> "int64", nul |-> FALSE]>>, has_header |-> FALSE, header |-> "none",
           is_exchange |-> "null"]
Payload(d) == [pname |-> d.pname, methods |-> IF d.second THEN <<MethodPayload(d.m), Second>> ELSE <<MethodPayload(d.m)>>]
VersionOf(d) == CASE d.version = "none" -> "" [] d.version = "v120" -> "1.2.0" [] d.version = "v130" -> "1.3.0"

\* the normative classification of edit kinds (one row per kind).  Retypes and state-kind changes that leave every describe
\* field as it was (bytes <-> dataclass <-> RecordBatch, list[int] <-> frozenset[int] <-> list[Optional[int]], int <-> NewType
\* <-> Annotated[int, note], Stream[RawState] <-> bare Stream) are "either": DESIGN 7a ties relevance to the describe payload.
Wire(d, ed) ==
  LET e == ed.e IN
  IF e \in EnvEdits \cup {"protocol_doc", "method_doc", "remove_doc", "param_doc", "swap_method_order", "state_class", "default",
                         "inherit", "private_members", "module_name", "optional_spelling", "keyword_only"} THEN "irrelevant"
  ELSE IF e = "version" THEN "either"                         \* carried by describe, deliberately outside the hash; statement silent
  ELSE IF e \in {"retype_param", "retype_ret", "kind"} /\ Payload(Apply(d, ed)) = Payload(d) THEN "either"
  ELSE "relevant"

Expected(c) == [d2 |-> Apply(c.d, c.ed), wire |-> Wire(c.d, c.ed), env |-> c.ed.e \in EnvEdits]

\* ---------------------------------------------------------------- table sanity
\* the classification agrees with what the payload says
RelevantChangesPayload(c)   == Wire(c.d, c.ed) = "relevant"   => Payload(Apply(c.d, c.ed)) # Payload(c.d)
IrrelevantKeepsPayload(c)   == Wire(c.d, c.ed) = "irrelevant" => Payload(Apply(c.d, c.ed)) = Payload(c.d)
EitherKeepsPayload(c)       == Wire(c.d, c.ed) = "either"     => Payload(Apply(c.d, c.ed)) = Payload(c.d)
\* every edit is a real single-point change (or an environment change), never a no-op
EditChangesSomething(c)     == c.ed.e \in EnvEdits \/ Apply(c.d, c.ed) # c.d
\* edited definitions stay well-formed: defaults are a suffix of the parameter list, names are distinct
WellFormed(d) == LET ps == d.m.params IN
                   /\ \A i, j \in 1..Len(ps) : (i < j /\ ps[i].dflt # "none") => ps[j].dflt # "none"
                   /\ \A i, j \in 1..Len(ps) : i # j => ps[i].n # ps[j].n
                   /\ (d.m.kind # "unary_ret" => d.m.ret = NoRet) /\ d.m.hdr \in HdrsOf(d.m.kind)
EditedWellFormed(c)         == WellFormed(c.d) /\ WellFormed(Apply(c.d, c.ed))

\* ---------------------------------------------------------------- judging the implementation
(* observation o:
     p1, p2        the describe payload the real server returned for d and for the edited definition, abstracted
                   back into the vocabulary of Payload (Arrow type names, nullability, names, flags)
     hash_equal    protocol_hash(d) = protocol_hash(edited d / d in the changed environment)
     hash_format   both hashes are 64 lowercase hex characters
     md_hash_ok    the hash in the describe metadata is the server's protocol_hash, for both
     version_ok    describe reports VersionOf(d) / VersionOf(d2)
     mismatch_ok   __describe__ answered a request carrying a mismatching / malformed / absent protocol version
                   (TRUE when the definition declares no version)                                              *)
Fail(name, ok) == IF ok THEN {} ELSE {name}
Conforms(c, o) ==
  LET d2 == Apply(c.d, c.ed)  w == Wire(c.d, c.ed) IN
       Fail("HashDiffersWhenWireRelevant", w = "relevant" => ~o.hash_equal)
  \cup Fail("HashStableWhenIrrelevant",    w = "irrelevant" => o.hash_equal)
  \cup Fail("DescribeFaithful",            o.p1 = Payload(c.d) /\ o.p2 = Payload(d2))
  \cup Fail("DescribeCarriesHash",         o.hash_format /\ o.md_hash_ok)
  \cup Fail("DescribeReportsVersion",      o.version_ok)
  \cup Fail("CallableUnderVersionMismatch", o.mismatch_ok)
=====================================================================================
