#!/bin/bash
# tools/run_all.sh [tier] [parallel]  -- run every claimed check in /verif against /repo, summary to stdout
tier=${1:-quick}; par=${2:-3}
cd /verif
ids=$(/venv/bin/python -c "import json;print(' '.join(json.load(open('drivers/claimed.json'))))")
mkdir -p /tmp/runall
run_one() { p=$1; s=$(date +%s); ./check $p --tier $2 > /tmp/runall/$p.log 2>&1; rc=$?; echo "$p rc=$rc $(( $(date +%s)-s ))s viol=$(grep -c '^VIOLATION' /tmp/runall/$p.log) known=$(grep -c '^KNOWN-FINDING' /tmp/runall/$p.log)"; }
export -f run_one
echo $ids | tr ' ' '\n' | xargs -P $par -I{} bash -c "run_one {} $tier"
