"""Child process of the C05 driver: the harness service behind the real stdio entry point (vgi_rpc serve_stdio).
    python -m drivers._wire2_worker <world>"""
import logging
import sys
import warnings

warnings.filterwarnings("ignore")
logging.disable(logging.CRITICAL)

from drivers import _wire2_req as R  # noqa: E402

if __name__ == "__main__":
    from vgi_rpc.rpc import serve_stdio

    server, _ = R.make_server(sys.argv[1])
    serve_stdio(server)
