----------------------------------- MODULE Caps -----------------------------------
(* C40 -- capability headers advertise exactly the configuration.

   The normative table (docs/WIRE_PROTOCOL.md "Capability discovery") transcribed once:

     id          header                                 emitted                         value
     maxreq      VGI-Max-Request-Bytes                  when configured                 the integer
     maxresp     VGI-Max-Response-Bytes                 when configured                 the integer
     maxext      VGI-Max-Externalized-Response-Bytes    when configured                 the integer
     extenabled  VGI-Externalization-Enabled            always                          "true" iff a storage backend is wired
     encodings   VGI-Supported-Encodings                always (possibly empty)         codings the server produces
     upload      VGI-Upload-URL-Support                 when a provider is configured   "true"
     maxupload   VGI-Max-Upload-Bytes                   provider AND limit configured   the integer
     proof       VGI-Proxy-Proof-Required               when required                   "true"
     sticky      VGI-Sticky-Enabled                     when enabled                    "true"
     ttl         VGI-Sticky-Default-TTL                 when sticky enabled             integer seconds
     echo        VGI-Sticky-Echo-Headers                sticky AND echo headers set     the header names, in order
     introspect  VGI-Token-Introspection                when a resolver is configured   "true"

   A case is a configuration vector together with the sequence of route kinds that can be requested under it (TLC
   decides applicability); the expected header set is a function of the configuration only (RouteIndependent).
   The driver issues one real request per listed route kind; responses whose capability headers are identical are
   judged as one observation that names all the route kinds it stands for.  Concrete configured values (integers as decimal
   strings, echo header names) are chosen by the driver and travel inside the observation (`o.vals`); TLC compares
   them with the header values.                                                                               *)
EXTENDS Naturals, Sequences, FiniteSets

CONSTANTS Slice           \* "full": all 9216 configurations; "quick": the 1152 with authentication configured (it is
                          \* not a capability, it only makes the 401 route reachable), maxResp = maxExt and
                          \* proof = intro -- every switch still takes every value, every conditional header both ways

\* the route kinds probed: the quick slice probes the first eight
QuickRoutes == <<"probe", "head_health", "get_health", "unary_ok", "unary_err", "unauth", "unknown_method", "too_large",
                 "auth_crash">>
Routes == IF Slice = "full"
          THEN QuickRoutes \o <<"options_health", "not_found_page", "bad_ce", "bad_request", "bad_ct", "init", "exchange",
                                "method_not_allowed", "options_rpc", "landing", "introspect_route", "session_delete",
                                "upload_url", "exchange_bad", "auth_unavailable", "cors_preflight", "outside_prefix">>
          ELSE QuickRoutes

Bool == {TRUE, FALSE}
HeaderIds == {"maxreq", "maxresp", "maxext", "extenabled", "encodings", "upload", "maxupload", "proof",
              "sticky", "ttl", "echo", "introspect"}
ListValued == {"encodings", "echo"}

\* Twelve switches decide the capability headers.  Three more describe the environment the app is built in and must
\* NOT change them: a URL prefix, CORS, and whether the human-facing pages (404 page, landing page, describe page) are
\* served.  They are not crossed with everything (that would be 73,728 apps); each is tied to two capability switches
\* by an exclusive-or, which keeps the count at 9,216 while every (environment switch, capability switch) pair still
\* takes all four value combinations (EnvPairsCovered, checked by TLC before enumeration).
CapConfigs == [maxReq : Bool, maxResp : Bool, maxExt : Bool, ext : {"none", "nostorage", "storage"},
               upload : Bool, maxUpload : Bool, comp : {"zg", "g", "none"}, sticky : Bool, echo : Bool,
               proof : Bool, intro : Bool, auth : Bool]
\* ---- how the configuration is SPELLED.  The same effective configuration can be written in several ways, and the
\* capability headers must follow the effective one:
\*   entry       which public entry point builds the app: "wsgi" (make_wsgi_app) | "sync" (make_sync_client, which
\*               forwards every parameter explicitly but has no CORS parameters) | "serve" (serve_http, which forwards a subset: it has no
\*               upload-URL provider, no max_upload_bytes, no prefix and no page switches)
\*   respAlias   the response cap is given through the deprecated alias max_stream_response_bytes
\*   explicitOff settings that are off are passed explicitly (None / False / None) instead of being omitted
\*   compSpell   compression_level when compression is on: omitted (default 1) | 1 | 3 | 22
\*   ttlSpell    sticky_default_ttl: omitted (the documented default of 300 s) | a float | an int
\* Like the environment switches they are tied to the capability switches instead of being crossed with them;
\* SpellingsCovered (checked by TLC before enumeration) states what the tie still guarantees.
B(b) == IF b THEN 1 ELSE 0
Serve(x) == ~x.upload /\ ~x.maxUpload /\ x.ext # "nostorage"
EntryOf(x) == IF Serve(x) THEN "serve" ELSE IF (x.maxExt # x.proof) THEN "sync" ELSE "wsgi"
EnvOf(x) == [prefix |-> IF Serve(x) THEN FALSE ELSE (x.maxReq # x.upload),
             cors |-> IF EntryOf(x) = "sync" THEN FALSE ELSE (x.sticky # x.maxUpload),   \* make_sync_client has no CORS
             pages |-> IF Serve(x) THEN TRUE ELSE (x.maxExt # x.echo),
             entry |-> EntryOf(x),
             respAlias |-> (x.maxReq # x.intro),
             explicitOff |-> (x.sticky # x.intro),
             compSpell |-> <<"default", "1", "3", "22">>[2 * B(x.echo) + B(x.proof) + 1],
             ttlSpell |-> <<"default", "float", "int">>[((B(x.maxReq) + 2 * B(x.maxResp) + B(x.upload)) % 3) + 1]]
EnvKeys == {"prefix", "cors", "pages", "entry", "respAlias", "explicitOff", "compSpell", "ttlSpell"}
WithEnv(x) == [k \in DOMAIN x \cup EnvKeys |-> IF k \in EnvKeys THEN EnvOf(x)[k] ELSE x[k]]
InSlice(x) == Slice = "full" \/ (x.auth /\ (x.maxResp = x.maxExt) /\ (x.proof = x.intro))
Configs == {WithEnv(x) : x \in {y \in CapConfigs : InSlice(y)}}
BoolSwitches == {"maxReq", "maxResp", "maxExt", "upload", "maxUpload", "sticky", "echo", "proof", "intro"}
EnvPairsCovered == \A e \in {"prefix", "cors", "pages"} : \A k \in BoolSwitches : \A ve \in Bool : \A vk \in Bool :
                      \E x \in Configs : x[e] = ve /\ x[k] = vk
ASSUME EnvPairsCovered
SpellingsCovered ==
  \* the alias, and the direct spelling, of the response cap through every entry point
  /\ \A en \in {"wsgi", "sync", "serve"} : \A al \in Bool : \E x \in Configs : x.entry = en /\ x.maxResp /\ x.respAlias = al
  \* every entry point with every capability switch on and off (serve_http cannot express upload / maxUpload)
  /\ \A en \in {"wsgi", "sync", "serve"} : \A k \in BoolSwitches : \A vk \in Bool :
        (en = "serve" /\ k \in {"upload", "maxUpload"} /\ vk) \/ \E x \in Configs : x.entry = en /\ x[k] = vk
  \* omitted vs explicit "off" for every switch that is off, on the entry point where it matters
  /\ \A k \in BoolSwitches : \A ex \in Bool : \E x \in Configs : x.entry = "wsgi" /\ ~x[k] /\ x.explicitOff = ex
  \* every compression-level spelling with compression on, every TTL spelling with sticky on
  /\ \A sp \in {"default", "1", "3", "22"} : \A cm \in {"zg", "g"} : \E x \in Configs : x.comp = cm /\ x.compSpell = sp
  /\ \A sp \in {"default", "float", "int"} : \E x \in Configs : x.sticky /\ x.ttlSpell = sp
ASSUME SpellingsCovered

\* a route kind is applicable to a configuration when the request can be made at all
Applicable(cfg, r) ==
  CASE r = "unauth"         -> cfg.auth
    [] r = "auth_crash"     -> cfg.auth        \* the authenticator itself raises: an unhandled 500
    [] r = "auth_unavailable" -> cfg.auth      \* the authority is down: 503
    [] r = "cors_preflight" -> cfg.cors
    [] r = "outside_prefix" -> cfg.prefix
    [] r = "too_large"      -> cfg.maxReq
    [] r = "upload_url"     -> cfg.upload
    [] r = "session_delete" -> cfg.sticky
    [] OTHER                -> TRUE

\* split for TLC's workers: a seed fixes six of the switches, Expand enumerates the rest and the routes
SeedOf(g) == WithEnv([g EXCEPT !.maxResp = FALSE, !.maxExt = FALSE, !.maxUpload = FALSE, !.echo = FALSE,
                                !.proof = FALSE, !.intro = FALSE])
Seeds == {[cfg |-> SeedOf(g), routes |-> <<>>] : g \in Configs}
RoutesOf(g) == SelectSeq(Routes, LAMBDA r : Applicable(g, r))
Variants(g) == {WithEnv([g EXCEPT !.maxResp = b1, !.maxExt = b2, !.maxUpload = b3, !.echo = b4, !.proof = b5,
                                  !.intro = b6]) :
                  b1 \in Bool, b2 \in Bool, b3 \in Bool, b4 \in Bool, b5 \in Bool, b6 \in Bool}
Expand(p) == {[cfg |-> g, routes |-> RoutesOf(g)] : g \in {x \in Variants(p.cfg) : InSlice(x)}}
Cases == UNION {Expand(p) : p \in Seeds}

\* ---------------------------------------------------------------- the table
Emitted(cfg, h) ==
  CASE h = "maxreq"     -> cfg.maxReq
    [] h = "maxresp"    -> cfg.maxResp
    [] h = "maxext"     -> cfg.maxExt
    [] h = "extenabled" -> TRUE
    [] h = "encodings"  -> TRUE
    [] h = "upload"     -> cfg.upload
    [] h = "maxupload"  -> cfg.upload /\ cfg.maxUpload
    [] h = "proof"      -> cfg.proof
    [] h = "sticky"     -> cfg.sticky
    [] h = "ttl"        -> cfg.sticky
    [] h = "echo"       -> cfg.sticky /\ cfg.echo
    [] h = "introspect" -> cfg.intro

Encodings(cfg) == CASE cfg.comp = "zg" -> <<"zstd", "gzip">> [] cfg.comp = "g" -> <<"gzip">> [] OTHER -> <<>>

\* scalar value of an emitted header, given the concrete configured values
Scalar(cfg, vals, h) ==
  CASE h = "maxreq"     -> vals.maxReq
    [] h = "maxresp"    -> vals.maxResp
    [] h = "maxext"     -> vals.maxExt
    [] h = "maxupload"  -> vals.maxUpload
    [] h = "ttl"        -> IF cfg.ttlSpell = "default" THEN "300" ELSE vals.ttl      \* documented default: 300 s
    [] h = "extenabled" -> IF cfg.ext = "storage" THEN "true" ELSE "false"
    [] OTHER            -> "true"
ListOf(cfg, vals, h) == IF h = "encodings" THEN Encodings(cfg) ELSE vals.echo

HeaderOrder == <<"maxreq", "maxresp", "maxext", "extenabled", "encodings", "upload", "maxupload", "proof", "sticky",
                 "ttl", "echo", "introspect">>
\* the oracle: which capability headers must be on the response (values: Scalar / ListOf above)
Expected(c) == SelectSeq(HeaderOrder, LAMBDA h : Emitted(c.cfg, h))

\* ---------------------------------------------------------------- table sanity (TLC, every case)
AlwaysTwo(c) == Emitted(c.cfg, "extenabled") /\ Emitted(c.cfg, "encodings")
RouteIndependent(c) == Expected([c EXCEPT !.routes = <<>>]) = Expected(c)
EnvironmentIndependent(c) ==      \* prefix, CORS and the pages never change the advertised capabilities
  \A p \in Bool, q \in Bool, r \in Bool :
     Expected([c EXCEPT !.cfg = [c.cfg EXCEPT !.prefix = p, !.cors = q, !.pages = r]]) = Expected(c)
SpellingIndependent(c) ==         \* ... and neither does the way the effective configuration is written down
  \A en \in {"wsgi", "sync", "serve"}, al \in Bool, ex \in Bool, sp \in {"default", "1", "3", "22"} :
     Expected([c EXCEPT !.cfg = [c.cfg EXCEPT !.entry = en, !.respAlias = al, !.explicitOff = ex, !.compSpell = sp]])
       = Expected(c)
UploadBytesNeedsProvider(c) == Emitted(c.cfg, "maxupload") => Emitted(c.cfg, "upload")
StickyFamily(c) == /\ Emitted(c.cfg, "ttl") <=> Emitted(c.cfg, "sticky")
                   /\ Emitted(c.cfg, "echo") => Emitted(c.cfg, "sticky")
EmittedOnlyFromTable(c) == /\ \A h \in HeaderIds : Emitted(c.cfg, h) \in Bool
                           /\ {HeaderOrder[i] : i \in 1..Len(HeaderOrder)} = HeaderIds
ApplicableCase(c) == \A i \in 1..Len(Routes) :
                        Applicable(c.cfg, Routes[i]) <=> (\E j \in 1..Len(c.routes) : c.routes[j] = Routes[i])

\* ---------------------------------------------------------------- judging what the real code did
(* observation o =
     [route, routes, vals, h, unknown, probe]
     route    the route kind the headers were read from ("probe" = OPTIONS /health through http_capabilities())
     routes   all route kinds of this case whose responses carried exactly these capability headers
     vals     [maxReq, maxResp, maxExt, maxUpload, ttl : decimal strings; echo : sequence of names] -- the concrete
              configuration the app was built with (meaningful where the switch is on)
     h        [id \in HeaderIds |-> [n |-> number of occurrences, v |-> raw value, l |-> parsed list]]
     unknown  names of response headers in the VGI- family that are neither in the table above nor one of the
              documented per-response headers : VGI-Auth-Reason, VGI-Auth-Proxy-Required, VGI-Session, VGI-Session-Close, VGI-Echo-<name>
     probe    what http_capabilities() returned (route "probe" only; same shape otherwise, ignored):
              [maxReq, maxResp, maxExt, maxUpload, ttl : decimal string or "none";
               ext, upload, sticky : BOOLEAN; encodings, echo : sequences]                                   *)
Conforms(c, o) ==
  LET cfg == c.cfg
      Want(h) == Emitted(cfg, h)
      ValueOk(h) == IF h \in ListValued THEN o.h[h].l = ListOf(cfg, o.vals, h)
                                        ELSE o.h[h].v = Scalar(cfg, o.vals, h)
      Opt(b, v) == IF b THEN v ELSE "none"
      ProbeOk == /\ o.probe.maxReq = Opt(cfg.maxReq, o.vals.maxReq)
                 /\ o.probe.maxResp = Opt(cfg.maxResp, o.vals.maxResp)
                 /\ o.probe.maxExt = Opt(cfg.maxExt, o.vals.maxExt)
                 /\ o.probe.maxUpload = Opt(cfg.upload /\ cfg.maxUpload, o.vals.maxUpload)
                 /\ o.probe.ttl = Opt(cfg.sticky, Scalar(cfg, o.vals, "ttl"))
                 /\ o.probe.ext = (cfg.ext = "storage")
                 /\ o.probe.upload = cfg.upload
                 /\ o.probe.sticky = cfg.sticky
                 /\ o.probe.encodings = Encodings(cfg)
                 /\ o.probe.echo = (IF cfg.sticky /\ cfg.echo THEN o.vals.echo ELSE <<>>)
  IN   {"Present"            : x \in {1} \cap (IF \A h \in HeaderIds : Want(h) => o.h[h].n >= 1 THEN {} ELSE {1})}
  \cup {"Absent"             : x \in {1} \cap (IF \A h \in HeaderIds : ~Want(h) => o.h[h].n = 0 THEN {} ELSE {1})}
  \cup {"Value"              : x \in {1} \cap (IF \A h \in HeaderIds : (Want(h) /\ o.h[h].n >= 1) => ValueOk(h)
                                               THEN {} ELSE {1})}
  \cup {"NoDuplicate"        : x \in {1} \cap (IF \A h \in HeaderIds : o.h[h].n <= 1 THEN {} ELSE {1})}
  \cup {"NoUnknownCapability": x \in {1} \cap (IF o.unknown = <<>> THEN {} ELSE {1})}
  \cup {"RequestedRoute"     : x \in {1} \cap (IF \A k \in 1..Len(o.routes) : \E j \in 1..Len(c.routes) :
                                                    c.routes[j] = o.routes[k] THEN {} ELSE {1})}
  \cup {"ProbeReadsBack"     : x \in {1} \cap (IF o.route = "probe" => ProbeOk THEN {} ELSE {1})}
=====================================================================================
