--------------------------------- MODULE AuthGate ---------------------------------
(* C20 -- "authentication precedes every dispatch" as a decision table over (configuration, request).

   A URL path is a sequence of segments; a segment is [b |-> base, e |-> ext] and stands for the text
   b \o e  (so "health" + "_status" is one segment that merely *shares a textual prefix* with "health").
   The empty base "" is the empty segment (trailing slash / double slash).  A configuration is the URL
   prefix (sequence of plain segment texts), whether the OAuth PKCE browser flow is active, whether the
   health endpoint is enabled, and the kind of service mounted (every identifier name in Methods is a
   method of that kind).

   Exempt(c)      the statement: only OPTIONS, paths under /.well-known/, the *exact* health endpoint and
                  the three OAuth browser-flow endpoints bypass authentication.
   ExemptImpl(c)  how the exemption test is structured in _AuthMiddleware.process_request /
                  make_wsgi_app: one test per exempt entry.  With dev = FALSE it is the intended exact
                  comparison (the code since /repo commit fdf6a93); with dev = TRUE it is the textual prefix
                  match (`startswith`) the code had before -- kept to label the input class of that finding
                  (Leak(c)) so that a regression is reported under the same signature.
   Reach(c)       the router: would service code run for this request if it were authenticated.

   Besides the base family (every configuration x verb x credential x path) there is a probe family over the
   routes that reach service code, varying what the statement says must NOT matter:
     beh    what the authenticate callback does: "decide" (accept iff the credential is good), "unavailable"
            (raises AuthUnavailableError), "crash" (raises an unexpected exception) -- a callback that did not
            accept must never be followed by a dispatch, whichever way it failed to accept;
     decoy  request decoration that mimics an exemption trigger without being one: CORS preflight headers on a
            non-OPTIONS request, method-override headers, forwarded-URI headers naming the health endpoint, a
            query string naming exempt paths;
     entry  how the application was built: make_wsgi_app directly, or through serve_http(authenticate=...);
     cors   whether cors_origins is configured (falcon's CORS middleware sits in front of authentication);
   and credentials carried by the PKCE session cookie instead of the Authorization header.                  *)
EXTENDS Naturals, Sequences, FiniteSets

CONSTANTS PrefixNames,       \* subset of {"root", "vgi", "ab", "health"}: the prefixes "", /vgi, /a/b, /health
          Exts,              \* name extensions for identifier bases: "", "z", "_status", "x"
          Kinds,             \* subset of {"unary", "producer", "exchange"}
          OAuthModes,        \* subset of {"none", "meta", "pkce"}
          Creds,             \* subset of {"none", "bad", "good"}
          Verbs,             \* subset of {"GET", "POST", "OPTIONS", "HEAD", "DELETE", "PUT", "PATCH"}
          Behaviours,        \* subset of {"decide", "unavailable", "crash"}
          Decoys,            \* subset of {"none", "preflight", "override", "fwd_uri", "query"}
          Entries,           \* subset of {"wsgi", "serve_http"}
          Rich,              \* TRUE: all route suffixes and three-segment paths; FALSE: the reduced (quick) path set
          Dev_PrefixMatch    \* TRUE: Leak(c) labels the requests the pre-fdf6a93 prefix match let through; FALSE: no labels

PrefixSeq(n) == CASE n = "root" -> <<>> [] n = "vgi" -> <<"vgi">> [] n = "ab" -> <<"a", "b">> [] n = "health" -> <<"health">>
Prefixes == {PrefixSeq(n) : n \in PrefixNames}
Seg(b) == [b |-> b, e |-> ""]
PSegs(p) == [i \in 1..Len(p) |-> Seg(p[i])]
WK == Seg(".well-known")

IdentBases == {"plain", "health", "describe", "oauth"}
Methods == {[b |-> x, e |-> y] : x \in IdentBases, y \in Exts}
FrameworkSegs == {Seg("__describe__"), Seg("__upload_url__"), Seg("__session__"), Seg("__introspect_token__"),
                  Seg("_oauth"), [b |-> "_oauth", e |-> "x"], WK, Seg("nosuch"), Seg("")}
Names == Methods \cup FrameworkSegs
Sufs == {Seg("init"), Seg("exchange"), Seg("callback"), Seg("token"), Seg("")}
        \cup (IF Rich THEN {Seg("logout"), Seg("health"), Seg("oauth-protected-resource")} ELSE {})
Sufs3 == {Seg("init"), Seg("")} \cup (IF Rich THEN {Seg("exchange")} ELSE {})
Names3 == ({Seg("health"), Seg("_oauth"), Seg("plain")}
           \cup (IF Rich THEN {[b |-> "health", e |-> "_status"], WK} ELSE {})) \cap Names
Mids3 == {Seg("callback"), Seg("init"), Seg("")} \cup (IF Rich THEN {Seg("health")} ELSE {})

Rel == {<<>>} \cup {<<n>> : n \in Names} \cup {<<n, s>> : n \in Names, s \in Sufs}
       \cup {<<n, s, t>> : n \in Names3, s \in Mids3, t \in Sufs3}
RelWK == {<<>>} \cup {<<n>> : n \in Names} \cup {<<n, s>> : n \in Names3, s \in Sufs3}
Paths(p) == {PSegs(p) \o x : x \in Rel} \cup Rel \cup {<<WK>> \o x : x \in RelWK} \cup {PSegs(p) \o <<WK>> \o x : x \in RelWK}
ShortSufs == {Seg("init"), Seg("callback"), Seg("")}

StartsWith(path, pre) == Len(path) >= Len(pre) /\ SubSeq(path, 1, Len(pre)) = pre
UnderWellKnown(path) == Len(path) >= 2 /\ path[1] = WK           \* textually "/.well-known/" + anything
Configs == [prefix : Prefixes, oauth : OAuthModes, health_on : BOOLEAN, kind : Kinds]
HeaderCreds == Creds \ {"cookie_good", "cookie_bad"}
CookieCreds == Creds \cap {"cookie_good", "cookie_bad"}
\* POST gets the full cross product; the other verbs (which never reach an RPC responder) a reduced one
Relevant(c) == \/ c.verb = "POST" /\ (c.cred = "good" => (StartsWith(c.path, PSegs(c.prefix)) /\ ~UnderWellKnown(c.path)))
               \/ /\ c.kind = CHOOSE k \in Kinds : TRUE
                  /\ c.cred = "none"
                  /\ Len(c.path) <= Len(c.prefix) + 2
                  /\ (Len(c.path) = Len(c.prefix) + 2 => c.path[Len(c.path)] \in ShortSufs)
BaseCases == {c \in UNION {[prefix : {g.prefix}, oauth : {g.oauth}, health_on : {g.health_on}, kind : {g.kind},
                            verb : Verbs, cred : HeaderCreds, path : Paths(g.prefix),
                            beh : {"decide"}, decoy : {"none"}, entry : {"wsgi"}, cors : {FALSE}] : g \in Configs} : Relevant(c)}
\* ---------------------------------------------------------------- the statement
P(c) == PSegs(c.prefix)
HealthPath(c) == P(c) \o <<Seg("health")>>
OAuthEndpoints(c) == {P(c) \o <<Seg("_oauth"), Seg(x)>> : x \in {"callback", "logout", "token"}}
Pkce(c) == c.oauth = "pkce"

ExemptHealth(c) == c.health_on /\ c.path = HealthPath(c)
ExemptOAuth(c) == Pkce(c) /\ c.path \in OAuthEndpoints(c)
Exempt(c) == c.verb = "OPTIONS" \/ UnderWellKnown(c.path) \/ ExemptHealth(c) \/ ExemptOAuth(c)

\* ---------------------------------------------------------------- the middleware as written
\* dev = FALSE: the intended exact comparison; dev = TRUE: the textual prefix match of the code before fdf6a93
ImplHealthD(c, dev) == c.health_on /\
                 IF dev
                 THEN LET n == Len(c.prefix) IN          \* req.path.startswith(prefix + "/health")
                      Len(c.path) > n /\ StartsWith(c.path, P(c)) /\ c.path[n + 1].b = "health"
                 ELSE c.path = HealthPath(c)
ImplOAuthD(c, dev) == Pkce(c) /\
                IF dev
                THEN LET n == Len(c.prefix) IN           \* req.path.startswith(prefix + "/_oauth/")
                     Len(c.path) >= n + 2 /\ StartsWith(c.path, P(c) \o <<Seg("_oauth")>>)
                ELSE c.path \in OAuthEndpoints(c)
ExemptImplD(c, dev) == c.verb = "OPTIONS" \/ UnderWellKnown(c.path) \/ ImplHealthD(c, dev) \/ ImplOAuthD(c, dev)
ImplHealth(c) == ImplHealthD(c, Dev_PrefixMatch)
ImplOAuth(c) == ImplOAuthD(c, Dev_PrefixMatch)
ExemptImpl(c) == ExemptImplD(c, Dev_PrefixMatch)
Leak(c) == IF Exempt(c) \/ ~ExemptImpl(c) THEN "none"
           ELSE IF ImplHealth(c) THEN "health-prefix" ELSE "oauth-prefix"

\* ---------------------------------------------------------------- the router (service code reachable?)
RelOf(c) == SubSeq(c.path, Len(c.prefix) + 1, Len(c.path))
Shadowed(m, c) == (m = Seg("health") /\ c.health_on) \/ m = Seg("describe")   \* literal routes win over {method}
Reach(c) ==
  /\ c.verb = "POST" /\ StartsWith(c.path, P(c))
  /\ LET r == RelOf(c) IN
     \/ Len(r) = 1 /\ r[1] \in Methods /\ c.kind = "unary" /\ ~Shadowed(r[1], c)
     \/ Len(r) = 1 /\ r[1] \in {Seg("__describe__"), Seg("__introspect_token__")}
     \/ Len(r) = 2 /\ r[1] \in Methods /\ c.kind # "unary" /\ r[2] \in {Seg("init"), Seg("exchange")}
     \/ (r = <<Seg("__upload_url__"), Seg("init")>> /\ c.entry = "wsgi")     \* serve_http takes no upload provider

\* ---------------------------------------------------------------- probe family (see header)
\* the requests worth decorating: those that would reach service code, plus the framework pages that need a login
PageLike(c) == c.verb = "GET" /\ c.path \in {P(c), P(c) \o <<Seg("describe")>>, P(c) \o <<Seg("health")>>}
Probed(c) == (Reach(c) \/ PageLike(c)) /\ c.cred = "none"
ProbeCases ==
  UNION {{[b EXCEPT !.beh = x[1], !.decoy = x[2]] : x \in (Behaviours \X Decoys) \ {<<"decide", "none">>}}
         : b \in {c \in BaseCases : Probed(c)}}
  \cup {[b EXCEPT !.cred = k] : b \in {c \in BaseCases : Reach(c) /\ c.cred = "none"}, k \in CookieCreds}
  \* CORS configured (cors_origins = "*"): a request that merely carries preflight-looking headers is still not OPTIONS
  \cup {[b EXCEPT !.cors = TRUE, !.decoy = d] : b \in {c \in BaseCases : Probed(c)}, d \in Decoys \cap {"none", "preflight"}}
  \cup (IF "serve_http" \in Entries
        THEN {[b EXCEPT !.entry = "serve_http"] :
                b \in {c \in BaseCases : c.prefix = <<>> /\ c.oauth = "none" /\ c.health_on
                                          /\ (Reach(c) \/ PageLike(c) \/ Len(c.path) <= 1)}}
        ELSE {})
Cases == BaseCases \cup ProbeCases

Expected(c) == [exempt |-> Exempt(c), leak |-> Leak(c), reach |-> Reach(c)]

\* ---------------------------------------------------------------- table sanity (TLC, every case)
ExemptSubsetOfImpl(c) == Exempt(c) => ExemptImpl(c)          \* the code exempts at least what the statement lists
NoLeak(c) == Leak(c) = "none"                                \* model-level "only the listed requests bypass" (fails iff Dev_PrefixMatch)
IntendedNoLeak(c) == ExemptImplD(c, FALSE) => Exempt(c)      \* the same clause on the intended design
IntendedIsExact(c) == ExemptImplD(c, FALSE) <=> Exempt(c)
ReachNeverExempt(c) == Reach(c) => ~Exempt(c)                \* no service-code route is on the exempt list
OptionsNeverReach(c) == c.verb = "OPTIONS" => ~Reach(c)
ProbesDoNotMoveTheOracle(c) ==       \* decoration, callback behaviour, entry point and credential carrier are not in Exempt
  LET b == [c EXCEPT !.beh = "decide", !.decoy = "none", !.entry = "wsgi", !.cred = "none", !.cors = FALSE] IN
  Exempt(c) = Exempt(b) /\ (Reach(c) => Reach(b))
LeakOnlyTwoSites(c) == Leak(c) # "none" => (Dev_PrefixMatch /\ (ImplHealth(c) \/ ImplOAuth(c)))

\* ---------------------------------------------------------------- judging what the real code did
(* observation o = [status, auth, ran]
     status   HTTP status
     auth     "none" (callback never consulted) | "accepted" | "rejected" | "errored" (the callback raised
              AuthUnavailableError or an unexpected exception: it neither accepted nor rejected)
     ran      any service code ran (method body, stream state callback, describe payload served,
              upload-URL provider, token resolver)                                                     *)
Viol(name, ok) == IF ok THEN {} ELSE {name}
Conforms(c, o) ==
       Viol("NoServiceCodeWhenRejected", o.auth = "rejected" => ~o.ran)
  \* the exemption list is for framework endpoints, which never reach service code: service code running without the
  \* callback having accepted the request is a dispatch that authentication did not precede -- exempt path or not
  \* (e.g. a responder behind the exempt {prefix}/health path that forwards POST to the RPC method `health`)
  \cup Viol("NoDispatchWithoutAuth", o.ran => o.auth = "accepted")
  \cup Viol("OnlyListedBypass", (~Exempt(c)) => o.auth # "none")
  \cup Viol("Rejected401", o.auth = "rejected" => o.status = 401)
  \cup Viol("ListedBypass", Exempt(c) => o.status # 401)
  \cup Viol("Drift_Reach", (~Exempt(c) /\ o.auth = "accepted") => (o.ran <=> Reach(c)))
  \cup Viol("Drift_Behaviour", (c.beh # "decide" /\ o.auth # "none") => o.auth = "errored")
=====================================================================================
