------------------------------ MODULE External ------------------------------
(* C30 -- external-storage offload is transparent and integrity-checked.

   One payload travels   producer -> (threshold decision) -> storage -> consumer:

     Produce   vgi_rpc/external.py: maybe_externalize_batch (unary result, stream header), maybe_externalize_collector
               (one OutputCollector cycle: log batches + the data batch) and http/_client.py:_build_pointer_request_body
               (client-uploaded request, pointer WITHOUT checksum): below the threshold the batches go inline, otherwise
               the IPC stream is (optionally compressed and) uploaded and replaced by a zero-row pointer batch carrying
               the URL and the SHA-256 of the uncompressed stream.
     Tamper    the storage side may change the stored object (corruption alphabet below); independently the pointer's
               checksum may be kept, stripped (legacy / client-vended pointers) or forged to match the changed object.
     Resolve   resolve_external_location / _fetch_and_resolve:  fetch (+decode) -> checksum -> walk the stream
               batch by batch (nested pointer? log batch -> on_log; else collect) -> exactly one data batch -> schema
               -> hand over.

   A stored stream is a sequence over  "L" log batch, "D" the data batch, "X" a further data batch, "P" a batch
   carrying vgi_rpc.location, "S" the data batch under a different schema, "O" a data batch of another object,
   "F" a log batch and "E" an EXCEPTION-level batch of another (substituted) object.
   `log` is the history the driver records from the real code; the clauses are operators over (case, log).      *)
EXTENDS Integers, Sequences, FiniteSets, TLC, Json

CONSTANTS Kinds,        \* subset of {"unary", "collector", "header", "request", "initreq", "xinput", "xupload"}
          Layouts,      \* names of the collector cycles explored, see LayoutSeq
          Thresholds,   \* subset of {"zero", "at", "above"}: externalize_threshold_bytes 0 / = payload size / never
          Comps,        \* subset of {"none", "zstd", "gzip"}
          Corruptions   \* subset of ByteCors \cup StructCors \cup {"none"}

LayoutSeq(n) == CASE n = "D" -> <<"D">> [] n = "LD" -> <<"L", "D">> [] n = "LLD" -> <<"L", "L", "D">>
                  [] n = "LDL" -> <<"L", "D", "L">>
\* changes of the object as a whole, detectable only through the checksum: damaged bytes, or another well-formed
\* object of the same schema (plain, with its own log batches, with an EXCEPTION batch)
ByteCors == {"flip", "trunc", "subst", "subst_logs", "subst_exc"}
StructCors == {"nested_before", "nested_after", "nested_only", "extra", "zero", "schema"}
PtrShas == {"kept", "stripped", "forged"}

\* Kinds: "unary" result, "collector" cycle of a stream, stream "header" (server -> client);  "request" unary request,
\* "initreq" stream-init request and "xupload" exchange input uploaded by the HTTP client through a server-vended URL
\* (client -> server, pointer without checksum);  "xinput" an exchange input batch the caller hands over as a pointer
\* with checksum, resolved by the server before process() runs.
Uploaded == {"request", "initreq", "xupload"}
HasSha(c) == c.kind \notin Uploaded     \* what the producer puts into the pointer
\* md: the data batch carries application metadata (collector cycles);  flaky: the storage answers the first fetch
\* with a transient error (the consumer retries)
Cases == {c \in [kind : Kinds, layout : Layouts, thr : Thresholds, comp : Comps, cor : Corruptions, psha : PtrShas,
                 md : BOOLEAN, flaky : {0, 1}] :
            /\ (c.kind # "collector" => (c.layout = "D" /\ ~c.md))
            /\ (c.kind \in Uploaded \cup {"xinput"} => c.comp = "none")   \* uploaded without a content encoding
            /\ (c.flaky = 1 => (c.cor = "none" /\ c.psha = "kept" /\ c.thr = "zero" /\ ~c.md))
            /\ (c.md => (c.psha = "kept" /\ c.cor \in {"none", "subst", "extra"}))
            /\ (c.thr = "above" => (c.cor = "none" /\ c.psha = "kept"))
            /\ (c.cor = "none" => c.psha \in {"kept", "stripped"})
            \* a byte-level change is only detectable through the checksum: explored where one is present and stale
            /\ (c.cor \in ByteCors => (c.psha = "kept" /\ HasSha(c)))}

\* ------------------------------------------------------------------ state
VARIABLES c, pc, store, psum, todo, seen, nlogs, tries, log
vars == <<c, pc, store, psum, todo, seen, nlogs, tries, log>>
NoStore == [seq |-> <<>>, bytes |-> "-", enc |-> "-"]

InitWith(cs) == /\ c = cs /\ pc = "produce" /\ store = NoStore /\ psum = "none" /\ todo = <<>> /\ seen = <<>>
                /\ nlogs = 0 /\ tries = 0 /\ log = <<>>
Init == \E cs \in Cases : InitWith(cs)
Ev(x) == log' = Append(log, x)

RECURSIVE Count(_, _)
Count(sq, x) == IF sq = <<>> THEN 0 ELSE (IF Head(sq) = x THEN 1 ELSE 0) + Count(Tail(sq), x)
Replace(sq, x, y) == [i \in 1..Len(sq) |-> IF sq[i] = x THEN y ELSE sq[i]]
Pos(sq, x) == CHOOSE i \in 1..Len(sq) : sq[i] = x
InsertAt(sq, i, x) == SubSeq(sq, 1, i - 1) \o <<x>> \o SubSeq(sq, i, Len(sq))

\* ---- producer: threshold decision, upload, pointer ----
Produce ==
  /\ pc = "produce"
  /\ IF c.thr = "above"
     THEN /\ Ev([e |-> "route", r |-> "inline"]) /\ pc' = "inline" /\ UNCHANGED <<store, psum>>
     ELSE /\ log' = log \o <<[e |-> "route", r |-> "external"], [e |-> "upload", enc |-> c.comp]>>
          /\ store' = [seq |-> LayoutSeq(c.layout), bytes |-> "orig", enc |-> c.comp]
          /\ psum' = IF HasSha(c) THEN "orig" ELSE "none"
          /\ pc' = "tamper"
  /\ UNCHANGED <<c, todo, seen, nlogs, tries>>

\* inline delivery: log batches to on_log in order, the data batch to the caller
Inline == /\ pc = "inline"
          /\ nlogs' = Count(LayoutSeq(c.layout), "L")
          /\ log' = log \o [i \in 1..Count(LayoutSeq(c.layout), "L") |-> [e |-> "log", forged |-> FALSE]]
                        \o <<[e |-> "deliver", what |-> "D", logs |-> Count(LayoutSeq(c.layout), "L"), logs_ok |-> TRUE,
                              md_ok |-> TRUE]>>
          /\ pc' = "done"
          /\ UNCHANGED <<c, store, psum, todo, seen, tries>>

\* ---- storage side ----
Tamper ==
  /\ pc = "tamper"
  /\ store' = CASE c.cor = "none"  -> store
                [] c.cor \in {"flip", "trunc"} -> [store EXCEPT !.bytes = "damaged"]
                [] c.cor = "subst" -> [store EXCEPT !.seq = <<"O">>, !.bytes = "other"]
                [] c.cor = "subst_logs" -> [store EXCEPT !.seq = <<"F", "O", "F">>, !.bytes = "other"]
                [] c.cor = "subst_exc" -> [store EXCEPT !.seq = <<"E", "O">>, !.bytes = "other"]
                [] c.cor = "nested_before" -> [store EXCEPT !.seq = InsertAt(@, Pos(@, "D"), "P"), !.bytes = "other"]
                [] c.cor = "nested_after"  -> [store EXCEPT !.seq = InsertAt(@, Pos(@, "D") + 1, "P"), !.bytes = "other"]
                [] c.cor = "nested_only"   -> [store EXCEPT !.seq = Replace(@, "D", "P"), !.bytes = "other"]
                [] c.cor = "extra" -> [store EXCEPT !.seq = Append(@, "X"), !.bytes = "other"]
                [] c.cor = "zero"  -> [store EXCEPT !.seq = SelectSeq(@, LAMBDA x : x # "D"), !.bytes = "other"]
                [] c.cor = "schema" -> [store EXCEPT !.seq = Replace(@, "D", "S"), !.bytes = "other"]
  /\ psum' = CASE c.psha = "kept" -> psum [] c.psha = "stripped" -> "none" [] c.psha = "forged" -> "cur"
  /\ Ev([e |-> "tamper", cor |-> c.cor, psha |-> c.psha])
  /\ pc' = "fetch"
  /\ UNCHANGED <<c, todo, seen, nlogs, tries>>

\* ---- consumer ----
Reject(why) == /\ Ev([e |-> "reject", why |-> why]) /\ pc' = "done"
\* fetch + content decoding: damaged compressed bytes may fail to decode (fetch raises), otherwise they decode to
\* other bytes; then the checksum
ShaOk == psum = "none" \/ psum = "cur" \/ (psum = "orig" /\ store.bytes = "orig")
\* a transient storage error: the fetch is repeated (tenacity), nothing of the object has been seen yet
Retry == /\ pc = "fetch" /\ c.flaky = 1 /\ tries = 0
         /\ tries' = 1 /\ Ev([e |-> "retry"])
         /\ UNCHANGED <<c, pc, store, psum, todo, seen, nlogs>>
Fetch ==
  /\ pc = "fetch" /\ (c.flaky = 1 => tries = 1)
  /\ \/ (store.bytes = "damaged" /\ store.enc # "none" /\ Reject("decode") /\ UNCHANGED todo)
     \/ (~ShaOk /\ Reject("sha") /\ UNCHANGED todo)
     \/ (ShaOk /\ store.bytes # "damaged" /\ todo' = store.seq /\ pc' = "walk" /\ UNCHANGED log)
  /\ UNCHANGED <<c, store, psum, seen, nlogs, tries>>
Walk ==
  /\ pc = "walk" /\ todo # <<>>
  /\ LET x == Head(todo) IN
       IF x = "P" THEN Reject("loop") /\ UNCHANGED <<todo, seen, nlogs>>
       ELSE IF x = "E" THEN Reject("forged_error") /\ UNCHANGED <<todo, seen, nlogs>>
       ELSE IF x \in {"L", "F"}
            THEN /\ nlogs' = nlogs + 1 /\ Ev([e |-> "log", forged |-> (x = "F")]) /\ todo' = Tail(todo)
                 /\ UNCHANGED <<seen, pc>>
       ELSE /\ seen' = Append(seen, x) /\ todo' = Tail(todo) /\ UNCHANGED <<nlogs, log, pc>>
  /\ UNCHANGED <<c, store, psum, tries>>
Finish ==
  /\ pc = "walk" /\ todo = <<>>
  /\ IF Len(seen) = 0 THEN Reject("nodata")
     ELSE IF Len(seen) > 1 THEN Reject("multi")
     ELSE IF seen[1] = "S" THEN Reject("schema")
     ELSE /\ Ev([e |-> "deliver", what |-> seen[1], logs |-> nlogs, logs_ok |-> TRUE, md_ok |-> TRUE]) /\ pc' = "done"
  /\ UNCHANGED <<c, store, psum, todo, seen, nlogs, tries>>
Terminated == pc = "done" /\ UNCHANGED vars

Next == Produce \/ Inline \/ Tamper \/ Retry \/ Fetch \/ Walk \/ Finish \/ Terminated
Spec == Init /\ [][Next]_vars

\* ------------------------------------------------------------------ property clauses over (case, log)
Delivered(lg) == \E i \in 1..Len(lg) : lg[i].e = "deliver"
Last(lg) == lg[Len(lg)]
\* without corruption the consumer gets exactly what inline delivery gives: the data batch and the same log messages
\* (batch, its application metadata, log messages);  a storage that is transiently unavailable may make the call
\* fail, but what is delivered is still the same
Same(cs, ev) == /\ ev.what = "D" /\ ev.md_ok /\ ev.logs = Count(LayoutSeq(cs.layout), "L") /\ ev.logs_ok
Transparent(cs, lg) ==
  cs.cor = "none" => /\ Len(lg) > 0
                     /\ IF cs.flaky = 0 THEN Last(lg).e = "deliver" /\ Same(cs, Last(lg))
                        ELSE Last(lg).e = "deliver" => Same(cs, Last(lg))
\* the pointer carries a checksum that the stored payload no longer matches
ShaDiffers(cs) == cs.cor # "none" /\ cs.psha = "kept" /\ HasSha(cs)
ShaEnforced(cs, lg) == ShaDiffers(cs) => ~Delivered(lg)
\* nothing carried inside an object whose checksum does not match the pointer's reaches application code: no log
\* message is dispatched to on_log and no error batch of that object is raised as the call's error
NothingDeliveredBeforeAuthenticated(cs, lg) ==
  ShaDiffers(cs) => \A i \in 1..Len(lg) : /\ lg[i].e # "log"
                                          /\ (lg[i].e = "reject" => lg[i].why # "forged_error")
NoNestedPointer(cs, lg) == cs.cor \in {"nested_before", "nested_after", "nested_only"} => ~Delivered(lg)
SingleDataBatch(cs, lg) == cs.cor \in {"extra", "zero"} => ~Delivered(lg)
SchemaEnforced(cs, lg) == cs.cor = "schema" => ~Delivered(lg)

ClauseNames == {"Transparent", "ShaEnforced", "NothingDeliveredBeforeAuthenticated", "NoNestedPointer", "SingleDataBatch", "SchemaEnforced"}
Holds(n, cs, lg) == CASE n = "Transparent" -> Transparent(cs, lg)
                      [] n = "ShaEnforced" -> ShaEnforced(cs, lg)
                      [] n = "NothingDeliveredBeforeAuthenticated" -> NothingDeliveredBeforeAuthenticated(cs, lg)
                      [] n = "NoNestedPointer" -> NoNestedPointer(cs, lg)
                      [] n = "SingleDataBatch" -> SingleDataBatch(cs, lg)
                      [] n = "SchemaEnforced" -> SchemaEnforced(cs, lg)
Violated(cs, lg) == {n \in ClauseNames : ~Holds(n, cs, lg)}

\* evaluated on complete histories (every behaviour ends in pc = "done": deadlock check on, see Terminated)
InvTransparent == pc = "done" => Transparent(c, log)
InvShaEnforced == pc = "done" => ShaEnforced(c, log)
InvNothingDeliveredBeforeAuthenticated == pc = "done" => NothingDeliveredBeforeAuthenticated(c, log)
InvNoNestedPointer == pc = "done" => NoNestedPointer(c, log)
InvSingleDataBatch == pc = "done" => SingleDataBatch(c, log)
InvSchemaEnforced == pc = "done" => SchemaEnforced(c, log)
\* any corruption of the alphabet is caught whenever it is detectable at all
InvCorruptNeverDelivered == (pc = "done" /\ c.cor # "none") => ~Delivered(log)
InvSane == /\ Len(log) <= 12 /\ (pc = "done" => (Delivered(log) \/ Last(log).e = "reject"))

Emit == pc = "done" => PrintT("@@J@@" \o ToJson([case |-> c, log |-> log]))
=============================================================================
