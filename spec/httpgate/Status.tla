---------------------------------- MODULE Status ----------------------------------
(* C15 -- HTTP status codes and body shapes on the RPC routes, as a decision table.

   A request is abstracted to

     route   "unary" (POST /{m}) | "init" (POST /{m}/init) | "exchange" (POST /{m}/exchange)
             | "upload" (POST /__upload_url__/init, the framework's own RPC route with its own handler)
     meth    "known" (exists, kind fits the route, succeeds) | "failing" (exists, fits, raises when dispatched;
             on the upload route: the URL provider raises)
             | "unknown" | "mismatched" (stream method on the unary route / unary method on a stream route)
             | "describe" (the synthetic unary method __describe__: answered from a pre-built batch and, by design,
             exempt from the protocol-version gate)
     body    "valid" | "corrupted" | "truncated" | "empty" | "wrong_md" (method name missing or different from the
             URL, request version missing or wrong) | "bad_params" (column missing / extra / wrong type / row count)
             | "bad_version" (protocol_version the server refuses)
     pkind   which kind of parameter the request exercises (unary / init routes; the wire form differs per kind):
             "scalar" (bytes column) | "dataclass" (binary column holding a nested Arrow IPC stream)
             | "enum" (dictionary-encoded member name) | "dict" (map column) | "set" (list column -> frozenset)
     pval    the VALUE carried in that parameter of an otherwise well-framed request (right column names and types):
             "ok" | "null" (null for a non-optional parameter) | "unknown_member" (enum: a name that is no member)
             | "nested_corrupt" (dataclass: bytes that are not Arrow IPC) | "nested_truncated" (nested stream cut
             inside a message) | "nested_empty" (zero bytes, or a nested stream with a schema and no batch)
             | "nested_shape" (decodable nested stream of the wrong shape: required field missing, extra rows,
             no row, field of another type)
     ctype   "correct" | "wrong" | "missing"
     cenc    "none" | "supported" (zstd / gzip, properly encoded) | "unsupported" | "corrupt" (a supported token on
             a body that does not decode)
     token   (state token; exchange route only)  "valid" | "tampered" | "missing" | "na"
             | "expired" (older than token_ttl) | "foreign_method" (minted by another stream method)
             | "foreign_principal" (minted for another authenticated caller)
             | "foreign_call" (cursor token of one stream paired with the call token of another)
     auth    "none" (no authenticator) | "accept" | "reject"
     size    "ok" | "over" (wire body larger than max_request_bytes)
             | "over_decoded" (wire body within the cap, decoded body larger; needs a supported content encoding)

   Faults and the status the statement attaches to each (the pipeline order of the implementation -- size cap,
   content decoding, authentication, content type, method resolution, method kind, request reading, gates --
   is *not* part of the statement, so rows with several faults admit the status of any of them, DESIGN 7a):

       size over                                   413        ctype wrong / missing          415
       cenc unsupported                            415        meth unknown                   404
       cenc corrupt                                400        meth mismatched                400
       auth reject                                 401        body not valid                 400
       token not valid (any of the six classes)    400        parameter value not convertible 400
                                                              ("parameter rejection": pval # "ok")

   No fault: the call is dispatched, the status is 200 and the error marker is present exactly when the method
   raised.  Never a 5xx.  Every response other than 401 and 415 has a decodable Arrow IPC body.               *)
EXTENDS Naturals, Sequences, FiniteSets

Routes == {"unary", "init", "exchange", "upload"}
Meths == {"known", "failing", "unknown", "mismatched", "describe"}
Bodies == {"valid", "corrupted", "truncated", "empty", "wrong_md", "bad_params", "bad_version"}
CTypes == {"correct", "wrong", "missing"}
CEncs == {"none", "supported", "unsupported", "corrupt"}
Tokens == {"valid", "tampered", "missing", "expired", "foreign_method", "foreign_principal", "foreign_call", "na"}
BadTokens == Tokens \ {"valid", "na"}
Auths == {"none", "accept", "reject"}
Sizes == {"ok", "over", "over_decoded"}
PKinds == {"scalar", "dataclass", "enum", "dict", "set"}
PVals == {"ok", "null", "unknown_member", "nested_corrupt", "nested_truncated", "nested_empty", "nested_shape"}
PValsOf(k) == CASE k = "dataclass" -> {"ok", "null", "nested_corrupt", "nested_truncated", "nested_empty", "nested_shape"}
                [] k = "enum"      -> {"ok", "null", "unknown_member"}
                [] OTHER           -> {"ok", "null"}

Valid(c) ==
  /\ (c.route = "exchange") <=> (c.token # "na")
  \* an exchange request carries no method name / version / parameters of its own: its metadata is the token
  /\ c.route = "exchange" => c.body \in {"valid", "corrupted", "truncated", "empty"}
  \* when the coding itself is the fault the underlying body is irrelevant
  /\ c.cenc = "corrupt" => c.body = "valid"
  \* an empty body cannot be oversize
  /\ c.size = "over" => c.body # "empty"
  \* parameter kinds / values: exchange requests carry no parameters; the value defects are kind specific; they are
  \* crossed with route, method class, content type, supported content encodings and auth, on an otherwise valid,
  \* in-cap body (the framing faults are already crossed with everything on the scalar rows)
  /\ c.pval \in PValsOf(c.pkind)
  /\ c.route \in {"exchange", "upload"} => c.pkind = "scalar" /\ c.pval = "ok"
  \* __describe__ lives on the unary route only and takes no parameters
  /\ c.meth = "describe" => c.route = "unary" /\ c.pkind = "scalar" /\ c.pval = "ok" /\ c.body # "bad_params"
  \* the upload route has one fixed method (metadata naming another one is body = wrong_md)
  /\ c.route = "upload" => c.meth \in {"known", "failing"}
                           /\ c.body \in {"valid", "corrupted", "truncated", "empty", "wrong_md"}
  \* the token classes beyond tampered / missing need a resolvable stream method and an otherwise valid request
  /\ c.token \in {"expired", "foreign_method", "foreign_principal", "foreign_call"} =>
        c.meth \in {"known", "failing"} /\ c.body = "valid" /\ c.size = "ok" /\ c.cenc \in {"none", "supported"}
  /\ c.token = "foreign_principal" => c.auth = "accept"
  /\ c.size = "over_decoded" => c.cenc = "supported" /\ c.body = "valid"
  /\ (c.pkind # "scalar" \/ c.pval # "ok") => c.body = "valid" /\ c.size = "ok" /\ c.cenc \in {"none", "supported"}

Space == [route : Routes, meth : Meths, body : Bodies, pkind : PKinds, pval : PVals, ctype : CTypes, cenc : CEncs,
          token : Tokens, auth : Auths, size : Sizes]
Seeds == {[route |-> r, meth |-> m, body |-> "valid", pkind |-> "scalar", pval |-> "ok", ctype |-> "correct",
           cenc |-> "none", token |-> "na", auth |-> a, size |-> "ok"] : r \in Routes, m \in Meths, a \in Auths}
\* Expand enumerates two record sets per seed instead of filtering Space (705,600 records): the framing rows (scalar
\* parameter with a good value, everything else free) and the parameter rows (valid in-cap body, the rest free)
Expand(p) ==
  LET One(x) == {x}
      Framing == [route : One(p.route), meth : One(p.meth), auth : One(p.auth), body : Bodies, pkind : One("scalar"),
                  pval : One("ok"), ctype : CTypes, cenc : CEncs, token : Tokens, size : Sizes]
      Params  == [route : One(p.route), meth : One(p.meth), auth : One(p.auth), body : One("valid"), pkind : PKinds,
                  pval : PVals, ctype : CTypes, cenc : {"none", "supported"}, token : Tokens, size : One("ok")]
  IN {c \in Framing \cup Params : Valid(c)}
Cases == UNION {Expand(p) : p \in Seeds}

\* ---------------------------------------------------------------- the mapping
Flag(name, cond) == IF cond THEN {name} ELSE {}
Faults(c) ==
       Flag("oversize", c.size # "ok")
  \cup Flag("coding", c.cenc = "unsupported")
  \cup Flag("undecodable", c.cenc = "corrupt")
  \cup Flag("auth", c.auth = "reject")
  \cup Flag("ctype", c.ctype # "correct")
  \cup Flag("unknown", c.meth = "unknown")
  \cup Flag("kind", c.meth = "mismatched")
  \cup Flag("body", c.body # "valid" /\ ~(c.meth = "describe" /\ c.body = "bad_version"))
  \cup Flag("param", c.pval # "ok")
  \cup Flag("token", c.token \in BadTokens)

StatusOf(f) == CASE f = "oversize" -> 413 [] f = "coding" -> 415 [] f = "undecodable" -> 400 [] f = "auth" -> 401
                 [] f = "ctype" -> 415 [] f = "unknown" -> 404 [] f = "kind" -> 400 [] f = "body" -> 400
                 [] f = "token" -> 400 [] f = "param" -> 400

Admissible(c) == IF Faults(c) = {} THEN {200} ELSE {StatusOf(f) : f \in Faults(c)}
Dispatched(c) == Faults(c) = {}
Failed(c) == Dispatched(c) /\ c.meth = "failing"
ArrowBody(status) == status \notin {401, 415}

SetToSeq(S) == LET RECURSIVE Build(_)
                   Build(T) == IF T = {} THEN <<>>
                               ELSE LET m == CHOOSE x \in T : \A y \in T : x <= y IN <<m>> \o Build(T \ {m})
               IN Build(S)
Expected(c) == [statuses |-> SetToSeq(Admissible(c)), dispatched |-> Dispatched(c), marker |-> Failed(c),
                faults |-> Cardinality(Faults(c))]

\* ---------------------------------------------------------------- table sanity (TLC, every row)
No5xxRow(c) == \A s \in Admissible(c) : s < 500
NeverEmpty(c) == Admissible(c) # {}
OnlyMappedStatuses(c) == Admissible(c) \subseteq {200, 400, 401, 404, 413, 415}
TwoHundredIffClean(c) == (200 \in Admissible(c)) <=> (Faults(c) = {})
MarkerOnlyOnDispatch(c) == Failed(c) => Dispatched(c)
SingleFaultExact(c) == Cardinality(Faults(c)) = 1 => Cardinality(Admissible(c)) = 1
ArrowExceptions(c) == \A s \in Admissible(c) : ~ArrowBody(s) <=> s \in {401, 415}
AuthIndependentOfRoute(c) == (c.auth = "reject") => 401 \in Admissible(c)
ParamRejectionIs400(c) ==       \* a value defect alone is a 400 and never a dispatch, whatever the parameter kind
  /\ c.pval # "ok" => ~Dispatched(c) /\ 400 \in Admissible(c)
  /\ (c.pval # "ok" /\ Cardinality(Faults(c)) = 1) => Admissible(c) = {400}
DescribeIgnoresVersion(c) ==    \* a mismatched client must still be able to ask what the server expects
  (c.meth = "describe" /\ c.body = "bad_version") => Admissible(c) = Admissible([c EXCEPT !.body = "valid"])
BadTokenIs400(c) == c.token \in BadTokens => ~Dispatched(c) /\ 400 \in Admissible(c)
ParamKindIrrelevant(c) ==       \* the mapping does not depend on which kind of parameter carries a good value
  c.pval = "ok" => Admissible(c) = Admissible([c EXCEPT !.pkind = "scalar"])

\* ---------------------------------------------------------------- judging what the real code did
(* observation o = [status, marker, arrow, errbatch, dispatched]
     status      HTTP status
     marker      X-VGI-RPC-Error: true present
     arrow       the body is one or more complete, decodable Arrow IPC streams
     errbatch    ... and one of them carries an EXCEPTION batch
     dispatched  the implementation method (unary / init) or the stream state's process() (exchange) ran;
                 __describe__: the describe payload came back; upload route: the URL provider was called     *)
Conforms(c, o) ==
       Flag("Status", o.status \notin Admissible(c))
  \cup Flag("No5xx", o.status >= 500)
  \cup Flag("DispatchIffClean", o.dispatched # Dispatched(c))
  \cup Flag("MarkerIffFailed", o.status = 200 /\ (o.marker # Failed(c)))
  \cup Flag("MarkerOnly200", o.status # 200 /\ o.marker)
  \cup Flag("ErrorBatchIffFailed", o.status = 200 /\ o.arrow /\ (o.errbatch # Failed(c)))
  \cup Flag("BodyIsArrow", ArrowBody(o.status) /\ ~o.arrow)
=====================================================================================
