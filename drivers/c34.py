"""C34 -- access logs record every dispatched call exactly once, schema-valid.
Spec: spec/wire/AccessLog.tla (state machine with the ghost access log), AccessLogTrace.tla (judge of real runs)."""
import logging
import multiprocessing as mp
import os

from drivers.c07 import FIXED
from vf import tracecheck
from vf.core import Ctx
from vf.tlc import MachineryError, render_cfg, require_ok, run_tlc, wrap_module

META = {
    "engine": "wire",
    "text": "TLC model-checks AccessLog.tla: every call history of <= MaxCalls calls over a small service (unary ok / "
            "raise / oversize result, producer with and without header, exchange; init raise, first / second process "
            "step raise, over-cap exchange output; every client exit: k ticks then close or cancel, iterate to the "
            "end) x transport (socket: one dispatch per stream call; HTTP: init, each continuation / exchange turn "
            "and cancel are dispatches, first producer step folded into /init; HTTP with a response cap) x message "
            "class, with the ghost access log, against CountMatches / StatusMatches / OneStreamId / "
            "ErrorMessageNonEmpty / ErrorMessageFull / DispatchOrder.  Every TLC-enumerated single-call history and "
            "a seeded sample of the two-call histories is replayed on a real pipe connection and on in-process HTTP "
            "with a logging.Handler on the vgi_rpc.access logger; every record is formatted by the repo's "
            "VgiAccessLogFormatter and validated with jsonschema against vgi_rpc/access_log.schema.json; the "
            "(client events, records) pair is judged by TLC against AccessLogTrace.tla clause by clause.",
    "note": "Counting rule (DESIGN 7a): only dispatched calls are counted; on the socket family a stream call is one "
            "dispatch (one record when the stream ends).  'Outcome the client observed': an error the client never "
            "read (socket init error of a header-less stream, or an HTTP first producer step failing behind a header, followed by close/cancel without a tick) and a cancel "
            "admit either status.  'Full message' = str(exc) recorded by the implementation is a substring of "
            "error_message.  Distinctness of stream_id between different streams is checked in the model only.  "
            "HTTP is concretised on four deployments (warm worker, cache disabled, two workers sharing the key, one-entry "
            "cache with an interleaved second stream, which is judged as a history of its own).  Trusted: jsonschema; in-process falcon client for HTTP; the capture handler sees records in emission order.",
    "technique": "TLC exhaustive exploration of a TLA+ state machine with a ghost log; TLC-enumerated histories replayed "
                 "on real pipe / in-process HTTP connections; TLC trace validation of (client events, access records)",
}

INVS = ["CountMatches", "DispatchOrder", "StatusMatches", "OneStreamId", "ErrorMessageNonEmpty", "ErrorMessageFull"]
MSGS = ["noargs", "empty", "ascii", "unicode", "long", "multiline"]
HTTP_CFG = ["sticky", "auth", "hook"]
SOCK_CFG = ["unix", "hook"]
COLD = ["nocache", "two", "evict"]     # HTTP deployments in which continuations miss the call-state cache
CLASSES_Q = ["ValueError"]
CLASSES_T = ["ValueError", "KeyError", "RuntimeError", "UserStrError", "SessionLostError"]


def consts(max_calls, max_ticks, msgs, pair_msgs=None, transports=("sock", "http", "httpcap"), fix=True, full_pairs=True):
    return {"MaxCalls": max_calls, "MaxTicks": max_ticks, "ProdLen": 3, "Transports": set(transports),
            "MsgClasses": set(msgs), "PairMsgClasses": set(pair_msgs if pair_msgs is not None else msgs),
            "FullPairs": full_pairs, "FixEmptyMsg": fix, "FixFullMsg": fix}


def model_check(ctx: Ctx, wd, name: str, cs: dict, emit: bool = True):
    wrap_module(wd, "AccessLog", "MC_AccessLog", {
        "Emit": 'Done => PrintT("@@J@@" \\o ToJson([tr |-> tr, msg |-> msg, script |-> script, hist |-> hist, '
                'alog |-> alog, outc |-> outc]))'}, extends="TLC, Json")
    r = run_tlc(wd, "MC_AccessLog", render_cfg(constants=cs, invariants=INVS + (["Emit"] if emit else [])),
                timeout=1500, cfg_name=f"mc_{abs(hash(name)) % 10**6}.cfg", env={"JAVA_TOOL_OPTIONS": "-XX:TieredStopAtLevel=1"})
    ctx.add_tlc(name, r)
    require_ok(r, f"AccessLog intended design ({name})")
    return [j for j in r.json_lines if "script" in j]


def concretize(mclass: str, idx: int, rng, classes: list[str]) -> tuple[str, str, int]:
    """message class -> (exception class, text, constructor arity)"""
    cls = classes[idx % len(classes)]
    if mclass == "none":
        return "ValueError", "unused", 1
    if mclass == "noargs":
        return cls, "", 0
    if mclass == "empty":
        return cls, "", 1
    pool = FIXED[mclass]
    return cls, pool[(idx // len(classes) + rng.randrange(len(pool))) % len(pool)], 1


# ------------------------------------------------------------------------------------------ worker (own process)
def _warm() -> None:
    import warnings

    warnings.filterwarnings("ignore")
    from drivers import _wire3_alog as A

    A.install(logging.INFO)
    import vgi_rpc.http  # noqa: F401
    from vgi_rpc.http import _testing  # noqa: F401


def work(jobs: list[dict]) -> list[dict]:
    import warnings

    from drivers import _wire3_alog as A

    warnings.filterwarnings("ignore")
    A.install(logging.INFO)
    worlds: dict = {}
    out = []
    for job in jobs:
        A.set_level(logging.DEBUG if job["debug"] else logging.INFO)
        r = A.run_history(job["tr"], job["script"], job["cls"], job["text"], job["argc"], worlds, deploy=job["deploy"])
        if r["hung"] and job["tr"] == "sock":
            r = A.run_history(job["tr"], job["script"], job["cls"], job["text"], job["argc"], worlds, timeout=25.0,
                              deploy=job["deploy"])
        recs, det = A.project(r["records"], r["errs"])
        other = None
        if r.get("other"):
            orecs, odet = A.project(r["other"]["records"], [])
            other = {"script": r["other"]["script"], "events": r["other"]["events"], "recs": orecs, "details": odet}
        out.append({"events": r["events"], "recs": recs, "details": det, "hung": r["hung"], "other": other,
                    "server_died": r["server_died"], "errs": [(k, len(t), t[:80]) for k, t in r["errs"]]})
    for w in worlds.values():
        w.close()
    return out


def _len_class(job: dict, res: dict) -> str:
    lens = [n for k, n, _ in res["errs"] if k == "impl"]
    if not lens:
        return "none"
    return "empty" if min(lens) == 0 else ("gt500" if max(lens) > 500 else "le500")


def run(ctx: Ctx) -> None:
    quick = ctx.quick
    wd = ctx.wd.stage("wire")
    import re
    import time as _t

    t0 = _t.time()
    nproc = int(os.environ.get("VERIF_PROCS", "5" if quick else "10"))
    pool = mp.get_context("spawn").Pool(nproc, initializer=_warm)      # imports overlap with the model checking
    try:
        if not quick:
            # the design as found (no message for an empty str(exc); HTTP cuts at 500 chars) violates the clauses: documentation
            wrap_module(wd, "AccessLog", "MC_AsFound", {}, extends="TLC")
            r0 = run_tlc(wd, "MC_AsFound", render_cfg(constants=consts(1, 1, ["empty", "long"], fix=False),
                                                      invariants=["ErrorMessageNonEmpty", "ErrorMessageFull"]),
                         env={"JAVA_TOOL_OPTIONS": "-XX:TieredStopAtLevel=1"}, workers=2, cont=True)
            ctx.extra["design_as_found_violates"] = sorted(set(re.findall(r"Invariant (\w+) is violated", r0.out)))

        mt = 2 if quick else 3
        pair_msgs = ["ascii"] if quick else ["ascii", "empty", "long"]
        hs = model_check(ctx, wd, f"AccessLog exhaustive MaxCalls=2 MaxTicks={mt} msgs=all, two-call msgs={pair_msgs}, second call {'short scripts' if quick else 'any'}",
                         consts(2, mt, MSGS, pair_msgs, full_pairs=not quick))
        import json as _json

        hs.sort(key=lambda h: _json.dumps([h["tr"], h["script"], h["msg"]], sort_keys=True))   # TLC's output order varies
        singles = [h for h in hs if len(h["script"]) == 1]
        pairs = [h for h in hs if len(h["script"]) == 2]
        ctx.exhaustive = True
        ctx.rule = ("case = one call history (script of 1-2 calls with client exit points, transport, message class) "
                    "enumerated by TLC, replayed on a fresh real pipe connection / the in-process HTTP client with one "
                    "concrete exception class and message; non-trivial = distinct (history, transport, concrete message, "
                    "logger level) tuples executed; single-call histories all, two-call histories a seeded sample")
        ctx.assume("HTTP legs use the in-process falcon test client (make_sync_client)",
                   "HTTP deployments: warm single worker (all histories); histories with a stream call also with the "
                   "call-state cache disabled, on two workers sharing the token key with requests alternating, and on a "
                   "one-entry cache with a second exchange stream interleaved turn by turn (quick: one of the three per "
                   "history, round-robin; thorough: all three); records of all workers are judged together",
                   "socket-family transport = make_pipe_pair; records are collected after the serve loop ended",
                   "logger level alternates INFO (payload omitted) / DEBUG (request_data, state tokens present)",
                   "two-call histories: seeded sample of the TLC-enumerated set (quick 300, thorough 4000); in quick the "
                   "second call of a history is one with a short client script (AccessLog!ShortOps) and message class ascii")
        ctx.rng.shuffle(pairs)
        n_pairs = 300 if quick else 4000
        chosen = singles + pairs[:n_pairs]
        classes = CLASSES_Q if quick else CLASSES_T
        jobs = []
        for i, h in enumerate(chosen):
            reps = 1 if (quick or h["msg"] == "none" or len(h["script"]) == 2) else 2
            for rep in range(reps):
                cls, text, argc = concretize(h["msg"], i + 7 * rep, ctx.rng, classes)
                # HTTP deployments: besides the warm single worker, histories with a stream call are replayed where a
                # continuation / exchange turn / cancel cannot find the call in the worker's call-state cache
                deploys = ["warm"]
                if h["tr"] == "http" and any(c["k"] in ("p", "ph", "p0", "x") for c in h["script"]):
                    deploys += [COLD[(i + rep) % len(COLD)]] if quick else COLD
                # configuration the record content depends on (all HTTP histories): sticky middleware, an authenticated
                # caller with claims, a registered dispatch hook that raises; sockets: unix socket pair, raising hook
                if h["tr"] == "http":
                    deploys += [HTTP_CFG[(i + rep) % len(HTTP_CFG)]] if quick else HTTP_CFG
                elif h["tr"] == "sock":
                    deploys += [SOCK_CFG[(i + rep) % len(SOCK_CFG)]] if (quick or len(h["script"]) == 2) else SOCK_CFG
                for dep in deploys:
                    jobs.append({"tr": h["tr"], "msg": h["msg"], "script": h["script"], "cls": cls, "text": text,
                                 "argc": argc, "deploy": dep, "debug": (i + rep + len(jobs)) % 2 == 1,
                                 "model": {"hist": h["hist"], "alog": h["alog"], "outc": h["outc"]}})
        ctx.extra["model_phase_s"] = round(_t.time() - t0, 1)
        t1 = _t.time()
        shards = [[{k: v for k, v in j.items() if k != "model"} for j in jobs[k::nproc]] for k in range(nproc)]
        try:
            parts = pool.map_async(work, shards).get(timeout=1500)
        except mp.TimeoutError as e:
            pool.terminate()
            raise MachineryError("C34 workers did not finish") from e
        pool.close()
        ctx.extra["real_code_phase_s"] = round(_t.time() - t1, 1)
        results: list = [None] * len(jobs)
        for k, part in enumerate(parts):
            for j, r in zip(range(k, len(jobs), nproc), part):
                results[j] = r

        traces = []
        for job, res in zip(jobs, results):
            ctx.case([job["tr"], job["deploy"], job["script"], job["cls"], job["text"][:48], len(job["text"]), job["argc"],
                      job["debug"]])
            traces.append({"tr": job["tr"], "msg": job["msg"], "script": job["script"], "events": res["events"],
                           "recs": res["recs"]})
        # the interleaved second stream of every "evict" replay is a history of its own (one exchange stream)
        extra = [(job, res) for job, res in zip(jobs, results) if res.get("other") and not res["hung"]]
        for job, res in extra:
            o = res["other"]
            traces.append({"tr": "http", "msg": "none", "script": o["script"], "events": o["events"], "recs": o["recs"]})
        for job, res in list(zip(jobs, results))[:: max(1, len(jobs) // 5)][:5]:
            ctx.sample({"transport": job["tr"], "script": job["script"], "exception": [job["cls"], job["text"][:60], len(job["text"])],
                        "client_events": res["events"], "access_records": res["recs"], "model_alog": job["model"]["alog"]})
        verdicts = tracecheck.validate(ctx, wd, "AccessLogTrace", traces, constants=consts(2, 3, MSGS),
                                       name="AccessLogTrace: (client events, access records) of every replay", chunk=4000)
        n_acc = 0
        for (job, res), v in zip(extra, verdicts[len(jobs):]):
            o = res["other"]
            det = {"interleaved_with": job["script"], "script": o["script"], "client_events": o["events"],
                   "access_records": o["recs"], "record_details": o["details"], "tlc": v}
            if v["accepted"] and not v["bad"]:
                ctx.traces_validated += 1
            elif not v["accepted"]:
                ctx.drift.append({"client_history_differs": True, "stream": "interleaved", **det})
            for cl in v["bad"]:
                if cl == "RecordsAlign":
                    ctx.drift.append({"records_do_not_align": True, **det})
                    continue
                xsig = {"tr": "http", "deploy": "evict", "msg": "none", "text_len_class": "none", "kinds": "x(interleaved)"}
                if cl == "SchemaValidCapped":
                    probs = sorted({q.split(": ", 1)[-1] for d in o["details"] for q in d.get("capped_schema_problems", [])})
                    xsig["cprob"] = " | ".join(probs)[:200]
                ctx.violation(cl, xsig, det)
        for job, res, v in zip(jobs, results, verdicts):
            sig = {"tr": job["tr"], "deploy": job["deploy"], "msg": job["msg"], "text_len_class": _len_class(job, res),
                   "kinds": "+".join(c["k"] for c in job["script"])}
            det = {"script": job["script"], "exception": [job["cls"], job["text"][:200], len(job["text"]), job["argc"]],
                   "deploy": job["deploy"], "logger_level": "DEBUG" if job["debug"] else "INFO", "client_events": res["events"],
                   "access_records": res["recs"], "record_details": res["details"], "server_errors": res["errs"],
                   "model": job["model"], "tlc": v}
            if res["hung"]:
                ctx.drift.append({"hung": True, **det})
                continue
            bad = [b for b in v["bad"]]
            if v["accepted"]:
                n_acc += 1
                if not bad:
                    ctx.traces_validated += 1
            else:
                # the client history is not the one the model predicts for this script: not C34's subject (C01/C07/C10)
                ctx.drift.append({"client_history_differs": True, "script": job["script"], "tr": job["tr"],
                                  "real": res["events"], "model": job["model"]["hist"], "tlc": v})
            for cl in bad:
                if cl == "RecordsAlign":
                    ctx.drift.append({"records_do_not_align": True, **det})
                    continue
                if cl == "SchemaValidCapped":
                    probs = sorted({q.split(": ", 1)[-1] for d in res["details"] for q in d.get("capped_schema_problems", [])})
                    ctx.violation(cl, dict(sig, cprob=" | ".join(probs)[:200]), det)
                    continue
                ctx.violation(cl, sig, det)
        ctx.extra["histories_replayed"] = len(jobs)
        ctx.extra["histories_accepted_by_model"] = n_acc
        ctx.extra["workers"] = nproc
    finally:
        pool.terminate()
