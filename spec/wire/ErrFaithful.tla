--------------------------------- MODULE ErrFaithful ---------------------------------
(* C07 -- implementation errors reach the client faithfully.  A total decision table (no VARIABLES).

   A case is one call whose implementation raises (or does not raise) one exception:

     cls    the exception class, by name.  Three groups:
              Builtins      built-in / library classes (ValueError, KeyError, ..., ArrowInvalid, RpcError)
              UserClasses   user-defined subclasses (of Exception, of a builtin, with an own __str__)
              TypedClasses  framework typed errors carrying a class attribute `error_kind`, and a user
                            subclass of one of them
            or "none": the call succeeds (the control row for "a successful response never carries
            the marker").
     msg    message class: "noargs" (raise C()), "empty" (C("")), "ascii", "unicode", "long" (>= 10 kB),
            "multiline"
     shape  "unary" | "prod" | "prodh" | "exch" | "exchh"   (producer / exchange stream, h = declares a header)
     site   where the exception is raised:
              unary   "call"  |  "call_log"  (after two client-directed log messages)
              stream  "init" | "init_log" | "p1" | "p1_log" | "p1_emit" | "p2" | "p2_log" | "p2_emit" | "p3"
                      (pK = the K-th process() call; _log = after a log message in that step; _emit = after
                       a data batch was emitted in that step)
     tr     transport: "pipe" (RpcConnection over make_pipe_pair), "http" (http_connect over the in-process
            WSGI client), "httpbuf" (same with max_response_bytes set, so that one HTTP response carries
            several producer steps and a later step's error rides behind data in one body)

   Beyond this base product every case carries three more coordinates, varied one at a time over a reduced
   class / message set (VClasses x VMsgClasses x every shape and site):
     mode   how the client consumes a producer stream: "iter" (tick loop on sockets, __iter__ / exchange over
            HTTP -- the default), "foriter" (socket: for-loop over the session), "token" (HTTP:
            next_with_token(), the resumable-relay entry point with its own response reader)
     chain  "none" | "cause" (raise X from Y, Y with a 20 kB text) | "context" (raised inside an except block)
     depth  "shallow" | "deep" (raised 300 frames down: the traceback alone exceeds its 16 000-char cap)
   further message classes (XMsgClasses): "multiarg" (C(text, 42): str() is the tuple repr), "nonstr" (C(12345)),
   "surrogate" (the text holds a lone surrogate, as surrogateescape-decoded file names do: it cannot be encoded
   as UTF-8 verbatim; carried = every surrogate-free segment of the text arrives, in order)
   and further transports / deployments (XTransports): "unix", "tcp" (socket pairs), "shm" (pipe with the shared
   memory side channel), "pipehook" / "httphook" (a dispatch hook -- the otel / sentry extension point -- whose
   start and end callbacks raise), "httpsticky" (sticky-session middleware enabled), "httpplain" (no compression).
   Response caps (CapTransports): "httptight" = HTTP with max_response_bytes = 16 KiB, "httptightx" = the same
   plus max_externalized_response_bytes = 16 KiB.  On them every point of the reduced grid is taken with an error
   body UNDER the cap (chain "none": about 2-3 kB) and OVER it (chain "cause": the 20 kB cause text makes the
   EXCEPTION batch > 30 kB), at every site: unary, init, first / later producer step, exchange turn.  Caps bound
   results (C16); an implementation's error reaches the client faithfully whatever they are -- a too-large error body
   must not be swapped for a synthetic "body exceeds max_response_bytes" error.  (Successful steps before the raise
   stay far below the cap, so no legitimate overshoot interferes.)
   The statement is universal, so every coordinate has the same expected outcome.

   Normative sources: the property statement; docs/WIRE_PROTOCOL.md section 8 ("The client MUST raise/throw
   an error with the following fields extracted from the metadata: error_type, error_message,
   remote_traceback, request_id, error_kind: `vgi_rpc.error_kind` value, when present") and its table of
   well-known kinds, transcribed in Kind below; "Why implementation errors are 200".                       *)
EXTENDS Naturals, Sequences, FiniteSets

CONSTANTS Builtins, UserClasses, TypedClasses, MsgClasses, Transports,
          StreamSites,    \* subset of AllStreamSites explored in this run
          VClasses, VMsgClasses,         \* reduced class / message sets for the one-at-a-time variations
          XMsgClasses, XTransports, Chains, Depths, Modes,    \* the variations explored in this run (may be empty)
          CapTransports                  \* HTTP deployments with tight response caps (error body under / over the cap)

\* ------------------------------------------------------------------ normative kind table (WIRE_PROTOCOL section 8)
WellKnownKinds == {"method_not_implemented", "protocol_version_mismatch", "session_lost", "server_draining"}
Kind(cls) == CASE cls = "MethodNotImplementedError" -> "method_not_implemented"
               [] cls = "ProtocolVersionError"      -> "protocol_version_mismatch"
               [] cls = "SessionLostError"          -> "session_lost"
               [] cls = "ServerDrainingError"       -> "server_draining"
               [] cls = "UserSessionLost"           -> "session_lost"       \* inherits the class attribute
               [] OTHER                             -> ""
FrameworkTyped == {"MethodNotImplementedError", "ProtocolVersionError", "SessionLostError", "ServerDrainingError"}
Group(cls) == IF cls = "none" THEN "none" ELSE IF cls \in TypedClasses THEN "typed"
              ELSE IF cls \in UserClasses THEN "user" ELSE "builtin"

\* ------------------------------------------------------------------ case space
Shapes == {"unary", "prod", "prodh", "exch", "exchh"}
AllStreamSites == {"init", "init_log", "p1", "p1_log", "p1_emit", "p2", "p2_log", "p2_emit", "p3"}
ASSUME StreamSites \subseteq AllStreamSites
SitesOf(shape) == IF shape = "unary" THEN {"call", "call_log"} ELSE StreamSites
AllClasses == Builtins \cup UserClasses \cup TypedClasses
HttpTransports == {"http", "httpbuf", "httpsticky", "httpplain", "httphook", "httptight", "httptightx"}
ASSUME CapTransports \subseteq {"httptight", "httptightx"}
\* is the error body of case x larger than the 16 KiB cap of the tight deployments
OverCap(x) == x.chain = "cause" \/ x.depth = "deep" \/ x.msg = "long"
SockTransports == {"pipe", "unix", "tcp", "shm", "pipehook"}
IsHttp(tr) == tr \in HttpTransports
ProdShapes == {"prod", "prodh"}
Dflt == [mode |-> "iter", chain |-> "none", depth |-> "shallow"]
Mk(c, m, s, st, t, md, ch, dp) == [cls |-> c, msg |-> m, shape |-> s, site |-> st, tr |-> t, mode |-> md, chain |-> ch, depth |-> dp]
Grid(cs, ms, ts) == {x \in {Mk(c, m, s, st, t, "iter", "none", "shallow") :
                                c \in cs, m \in ms, s \in Shapes, st \in StreamSites \cup {"call", "call_log"}, t \in ts}
                        : x.site \in SitesOf(x.shape)}
Control(ts) == {Mk("none", "none", s, "none", t, "iter", "none", "shallow") : s \in Shapes, t \in ts}

Base == Grid(AllClasses, MsgClasses, Transports) \cup Control(Transports)
\* one-at-a-time variations over the reduced grid
VGrid(ts) == Grid(VClasses, VMsgClasses, ts)
\* next_with_token() documents a precondition: one data batch per response, i.e. a server without
\* max_response_bytes (it raises RuntimeError otherwise, by design) -- so not on "httpbuf"
TokenTransports == HttpTransports \ {"httpbuf"}
ModeOK(x, md) == x.shape \in ProdShapes /\ (IF md = "token" THEN x.tr \in TokenTransports ELSE ~IsHttp(x.tr))
CapCases == {[x EXCEPT !.chain = ch] : x \in Grid(VClasses, {"ascii"}, CapTransports), ch \in {"none", "cause"}}
Variants ==
       VGrid(XTransports) \cup Control(XTransports)
  \cup Grid(VClasses, XMsgClasses, Transports)
  \cup {[x EXCEPT !.chain = ch] : x \in VGrid(Transports), ch \in Chains \ {"none"}}
  \cup {[x EXCEPT !.depth = dp] : x \in VGrid(Transports), dp \in Depths \ {"shallow"}}
  \* tight caps: short-message grid points, error body under (no chain) and over (20 kB cause) the cap
  \cup CapCases
  \cup Control(CapTransports)
  \cup UNION {{[x EXCEPT !.mode = md] : x \in {y \in VGrid(Transports) \cup Control(Transports) : ModeOK(y, md)}}
              : md \in Modes \ {"iter"}}
Cases == Base \cup Variants

Fails(c) == c.cls # "none"
\* the step of the stream at which the call fails (0 = the method call itself / init)
FailStep(c) == CASE c.site \in {"p1", "p1_log", "p1_emit"} -> 1
                 [] c.site \in {"p2", "p2_log", "p2_emit"} -> 2
                 [] c.site = "p3" -> 3
                 [] OTHER -> 0
Expected(c) == [fails |-> Fails(c), etype |-> c.cls, kind |-> Kind(c.cls), group |-> Group(c.cls), step |-> FailStep(c)]

\* ------------------------------------------------------------------ table sanity (TLC checks these on every case)
TypedHaveKind(c)   == c.cls \in TypedClasses => Kind(c.cls) \in WellKnownKinds
UntypedNoKind(c)   == c.cls \notin TypedClasses => Kind(c.cls) = ""
SiteValid(c)       == IF Fails(c) THEN c.site \in SitesOf(c.shape) ELSE c.site = "none"
CoordsValid(c)     == /\ c.tr \in HttpTransports \cup SockTransports
                      /\ c.mode \in {"iter", "foriter", "token"} /\ c.chain \in {"none", "cause", "context"}
                      /\ c.depth \in {"shallow", "deep"}
                      /\ (c.mode = "token" => (c.tr \in TokenTransports /\ c.shape \in ProdShapes))
                      /\ (c.mode = "foriter" => (~IsHttp(c.tr) /\ c.shape \in ProdShapes))
\* on a capped deployment both sides of the cap are explored, at every shape and site
CapBothSides(c)    == (c.tr \in CapTransports /\ Fails(c)) =>
                        LET d == [c EXCEPT !.chain = IF c.chain = "none" THEN "cause" ELSE "none"] IN
                          d \in CapCases /\ OverCap(d) # OverCap(c)
\* a variation changes exactly one coordinate of a grid point
OneAtATime(c)      == Cardinality({k \in {"mode", "chain", "depth"} : c[k] # Dflt[k]}) <= 1
GroupsDisjoint(c)  == Cardinality({g \in {Builtins, UserClasses, TypedClasses} : c.cls \in g}) = (IF Fails(c) THEN 1 ELSE 0)
KindInjective(c)   == \A a, b \in FrameworkTyped : (a # b) => Kind(a) # Kind(b)
FrameworkCovered(c) == FrameworkTyped \subseteq TypedClasses      \* every run covers all four framework typed errors

\* ------------------------------------------------------------------ judging what the real code did
(* observation o (recorded by the driver around the real client):
     nerr     number of RpcError raised to the caller during the scripted use of the call
     nother   number of other exceptions that escaped the client
     hung     the call did not come back within the watchdog
     etype    RpcError.error_type of the (first) error ("" if none)
     srvtype  the class name the implementation recorded when it raised ("" if it did not raise)
     msg_ok   str(exc) recorded by the implementation is contained in RpcError.error_message (message class
              "surrogate": every surrogate-free segment of it is, in order)
     kind     the error kind exposed on the client error: the value of RpcError.error_kind, "" when it is
              None / empty, "<noattr>" when the client error has no such attribute
     done     (successful rows) the scripted use ran to its normal end
     follow   (HTTP, failing rows) a successful call of the same shape made right after the failure in the
              same client thread: "ok" it succeeded, "bad" it did not, "none" not made
     http     sequence of [status, marker, err] for every HTTP response of the call and of the follow-up call:
              marker = value of the X-VGI-RPC-Error header ("" = absent), err = the body carries an
              EXCEPTION batch                                                                              *)
Resp(o) == {o.http[i] : i \in 1..Len(o.http)}
Clause(name, ok) == IF ok THEN {} ELSE {name}
Conforms(c, o) ==
       Clause("Delivered",        Fails(c) => (o.nerr = 1 /\ o.nother = 0 /\ ~o.hung))
  \cup Clause("RaisedWhatWasAsked", Fails(c) => o.srvtype = c.cls)             \* harness sanity, never a finding by itself
  \cup Clause("TypeName",         (Fails(c) /\ o.nerr >= 1) => o.etype = c.cls)
  \cup Clause("MessageCarried",   (Fails(c) /\ o.nerr >= 1) => o.msg_ok)
  \cup Clause("KindExposed",      (Fails(c) /\ o.nerr >= 1 /\ Kind(c.cls) # "") => o.kind = Kind(c.cls))
  \cup Clause("NoSpuriousKind",   (Fails(c) /\ o.nerr >= 1 /\ Kind(c.cls) = "") => o.kind \in {"", "<noattr>"})
  \cup Clause("NoSpuriousError",  /\ (~Fails(c)) => (o.nerr = 0 /\ o.nother = 0 /\ ~o.hung /\ o.done)
                                  \* nor may a failing row fail *before* the implementation raised anything
                                  /\ (Fails(c) /\ o.srvtype = "") => (o.nerr = 0 /\ o.nother = 0 /\ ~o.hung))
  \cup Clause("Http200WithMarker", IsHttp(c.tr) => \A r \in Resp(o) : r.err => (r.status = 200 /\ r.marker # ""))
  \cup Clause("MarkerOnlyOnFailure", IsHttp(c.tr) => \A r \in Resp(o) : (~r.err) => r.marker = "")
  \* not a clause of the statement (worker reuse after a failure is C04/C14): the driver reports it as drift
  \cup Clause("SuccessAfterFailure", (IsHttp(c.tr) /\ Fails(c) /\ ~o.hung) => o.follow = "ok")
  \cup Clause("FailureIsMarked",  (IsHttp(c.tr) /\ Fails(c) /\ ~o.hung) => \E r \in Resp(o) : r.err)
  \cup Clause("SuccessUnmarked",  (IsHttp(c.tr) /\ ~Fails(c)) => \A r \in Resp(o) : (r.marker = "" /\ ~r.err /\ r.status = 200))
=====================================================================================
