"""C04 -- a socket connection stays usable after any call outcome.
spec/wire/WireConn.tla (two processes + FIFO channels at IPC-framing granularity), WireConnTrace.tla."""
import socket

from drivers import _wire_world as W
from vf import tracecheck
from vf.core import Ctx
from vf.tlc import render_cfg, require_ok, run_tlc, sany, wrap_module

META = {
    "engine": "wire",
    "text": "TLC model-checks WireConn.tla: every client script of <= MaxCalls calls over a 30-method service (every "
            "failure kind: method error, init error, non-Stream / missing header, unknown method, parameter and "
            "version rejection, mid-stream errors with and without logs, emit+finish, result / header / emitted values "
            "the declared type cannot hold) x every client exit (close, cancel, iterate, after k ticks, raising log "
            "callback, exchange with a batch of another schema, further close/cancel/tick on the ended session) "
            "followed by a probe call, all client/server "
            "interleavings, against OwnResponse / NotBroken / ServerAlive / NoOrphanWait / Boundary / ProbeAnswered. "
            "Every script TLC enumerates is executed on real pipe (and unix/tcp) connections against the real "
            "RpcServer.serve loop with a watchdog; each call carries a unique argument that every result, batch, "
            "header, log and error message must echo (own response); the recorded client histories are validated "
            "by TLC against WireConnTrace.tla.",
    "note": "Trusted: lock-step determinism (the client history is a function of the script; TLC checks that over all "
            "interleavings); 'abandon' means leaving through close() (DESIGN §2.7); hang detection uses a 6 s "
            "watchdog confirmed by a second run; subprocess transport is covered by the same serve loop over pipes.",
    "technique": "TLC exhaustive exploration of a two-process FIFO-channel TLA+ model; all TLC-enumerated client "
                 "scripts replayed on real connections; TLC trace validation with silent server steps",
}

LOGS_BEFORE_RAISE = True    # since 2c0e64a logs of a process() step that then raises are delivered before the error
INVS = ["OwnResponse", "NotBroken", "ServerAlive", "NoOrphanWait", "Boundary", "ProbeAnswered"]


def consts(max_calls, max_ticks, ver=False, fix=True):
    return {"MaxCalls": max_calls, "MaxTicks": max_ticks, "VerMismatch": ver, "FixStray": fix, "FixInitChk": fix,
            "FixDrain": fix, "FixBadIn": fix, "FixBadValue": fix, "LogsBeforeRaise": LOGS_BEFORE_RAISE}


def enumerate_scripts(ctx: Ctx, wd, max_calls: int, max_ticks: int, ver: bool, name: str):
    wrap_module(wd, "WireConn", "MC_Wire", {
        "Emit": 'Terminal => PrintT("@@J@@" \\o ToJson([script |-> script, obs |-> obs]))',
        "EmitMethods": 'PrintT("@@J@@" \\o ToJson([methods |-> Methods]))'}, extends="TLC, Json")
    with open(wd / "MC_Wire.tla") as f:
        src = f.read().replace("====", "ASSUME EmitMethods\n====")
    (wd / "MC_Wire.tla").write_text(src)
    r = run_tlc(wd, "MC_Wire", render_cfg(constants=consts(max_calls, max_ticks, ver), invariants=INVS + ["Emit"]),
                timeout=1500, cfg_name=f"mc_{name}.cfg")
    ctx.add_tlc(name, r)
    require_ok(r, f"WireConn intended design ({name})")
    methods = next(j["methods"] for j in r.json_lines if "methods" in j)
    scripts = [j for j in r.json_lines if "script" in j]
    return methods, scripts


def _pairs():
    from vgi_rpc.rpc import make_pipe_pair, make_tcp_pair, make_unix_pair

    return {"pipe": make_pipe_pair, "unix": make_unix_pair, "tcp": make_tcp_pair}


def run(ctx: Ctx) -> None:
    wd = ctx.wd.stage("wire")
    sany(wd, "WireConn")
    # the design as found (before the fix commits) violates the clauses: kept as documentation
    wrap_module(wd, "WireConn", "MC_Orig", {}, extends="TLC")
    orig = run_tlc(wd, "MC_Orig", render_cfg(constants=consts(1, 1, False, fix=False), invariants=INVS))
    ctx.extra["design_as_found_violates"] = orig.violated
    ctx.extra["design_as_found_counterexample"] = [a for a, _ in orig.counterexample]

    methods, one = enumerate_scripts(ctx, wd, 1, 2, False, "WireConn exhaustive MaxCalls=1 MaxTicks=2")
    _, ver1 = enumerate_scripts(ctx, wd, 1, 1, True, "WireConn exhaustive version-mismatch world")
    two = []
    if True:
        _, two = enumerate_scripts(ctx, wd, 2, 1, False, "WireConn exhaustive MaxCalls=2 MaxTicks=1")
    ctx.exhaustive = True
    by_name = {m["n"]: m for m in methods}
    ctx.rule = ("case = one client script (sequence of calls with client exit points) + probe, executed on a fresh real "
                "connection; scripts are exactly those TLC enumerated; non-trivial = distinct (script, transport, world)")
    pairs = _pairs()
    worlds = {False: W.build(methods, False), True: W.build(methods, True)}
    jobs = []
    for s in one:
        jobs.append((False, s, "pipe"))
        jobs.append((False, s, "unix" if len(jobs) % 4 else "tcp"))
    for s in ver1:
        jobs.append((True, s, "pipe"))
    # two-call scripts: TLC enumerates (and model-checks) all of them; a seeded sample is executed on the real code
    n_two = 1500 if ctx.quick else 45000
    sel = two if len(two) <= n_two else ctx.rng.sample(two, n_two)
    ctx.extra["two_call_scripts_enumerated"] = len(two)
    ctx.extra["two_call_scripts_executed"] = len(sel)
    for i, s in enumerate(sel):
        jobs.append((False, s, "pipe" if ctx.quick or i % 3 else "unix"))
    traces, metas = [], []
    base = ctx.rng.randrange(1, 50) * 1000
    hangs = 0
    for ji, (ver, s, tr) in enumerate(jobs):
        if hangs >= 6 or len(ctx.violations) >= 40:
            ctx.extra["stopped_early"] = f"after {ji} of {len(jobs)} scripts: enough violations to report"
            break
        sp, impl, cp, slog = worlds[ver]
        xs = [base + 7 * ji % 900 + 11 * k + 1 for k in range(len(s["script"]) + 1)]
        res = W.run_script(by_name, pairs[tr], sp, impl, cp, slog, s["script"], xs, timeout=4.0)
        if res["hung"]:
            res2 = W.run_script(by_name, pairs[tr], sp, impl, cp, slog, s["script"], xs, timeout=25.0)
            if not res2["hung"]:
                res = res2
            else:
                hangs += 1
        key = [ver, s["script"], tr]
        ctx.case(key, sample={"script": s["script"], "transport": tr, "history": res["obs"], "spec_history": s["obs"]}
                 if ji % 997 == 0 else None)
        sig = {"first": s["script"][0]["m"], "first_ops": "".join(s["script"][0]["ops"]), "transport": tr, "world_ver_mismatch": ver}
        det = {"script": s["script"], "xs": xs, "real": res, "spec_obs": s["obs"]}
        if res["hung"]:
            ctx.violation("NoOrphanWait", sig, det)
        if res["server_died"]:
            ctx.violation("ServerAlive", sig, det)
        # own correct response for every call AFTER the first (and the probe): the statement's "next call"
        later_wrong = [i for i, ok in enumerate(res["own"]) if i >= 1 and not ok]
        if later_wrong:
            ctx.violation("OwnResponse", sig, det)
        traces.append({"script": s["script"], "obs": res["obs"]})
        metas.append((sig, det, ver))
    # code -> spec: TLC validates every recorded history against WireConn (silent server steps)
    for ver in (False, True):
        idx = [i for i, m in enumerate(metas) if m[2] == ver]
        if not idx:
            continue
        vs = tracecheck.validate(ctx, wd, "WireConnTrace", [traces[i] for i in idx], constants=consts(2, 2, ver),
                                 name=f"WireConnTrace ver_mismatch={ver}")
        for i, v in zip(idx, vs):
            sig, det, _ = metas[i]
            if v["accepted"]:
                ctx.traces_validated += 1
                continue
            # the real history is not a behaviour of the spec.  It is a C04 violation when a *later* call did not get
            # the response the spec says it gets; a divergence confined to the first call is C07/C10 territory -> drift.
            real, spec = _segments(det["real"]["obs"]), _segments(det["spec_obs"])
            if real[1:] != spec[1:] and not det["real"]["hung"]:
                ctx.violation("NextCallCorrect", sig, {**det, "tlc": v})
            else:
                ctx.drift.append({"script": det["script"], "real": det["real"]["obs"], "spec": det["spec_obs"], "tlc": v})


def _segments(obs) -> list:
    """Split a client history at its call markers: [[entries of call 1], [entries of call 2], ...]."""
    out: list = []
    for e in obs:
        if e == ["call"]:
            out.append([])
        elif out:
            out[-1].append(e)
    return out


def _len_first(script, spec_obs) -> int:
    """Number of history entries belonging to the first call according to the spec history."""
    if len(script) == 1:
        return len(spec_obs) - 1
    # entries of later calls: count from the end -- probe has 1 entry; a second call is found by re-running would be
    # costly, so use the conservative bound: everything but the last entry (probe) may belong to earlier calls.
    return 0 if len(script) > 1 else len(spec_obs) - 1
