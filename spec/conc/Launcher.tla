----------------------------------- MODULE Launcher -----------------------------------
(* C33 (first sentence) -- concurrent launches of the same worker command.

   Code-shaped model of vgi_rpc/launcher.py:launch() for N launcher processes that hash to the same worker
   command, the per-hash file lock (trusted as a mutex), the socket path, and the life of the workers they
   spawn (the prologue/epilogue of vgi_rpc/rpc/_transport.py:serve_unix).  One action = one thread running
   from one park point of the deterministic scheduler to the next.

     launcher i   start -LBegin-> lock -LLock-> probe -LProbe-> done(path)            a worker answered the probe
                                                      -LProbe-> unlink -LUnlink-> spawn -LSpawn-> ready -LReady-> done
     worker w     start -WStart-> check -WCheck-> bind | failed        _check_no_existing_listener
                  bind -WBind-> serving                                unlink stale entry, bind, listen, UNIX:<path> line
                  serving -WClose-> closing -WUnlink-> gone            idle exit (see below)
   A worker that is killed is one that never takes WUnlink (a stale socket entry stays behind).

   Idle exit, as shipped (FixUnlinkFirst = FALSE): serve_unix closes the listening socket, *then* unlinks the path if
   lstat(path) still reports the (st_dev, st_ino) recorded at bind.  Once the listener is closed and a launcher has
   unlinked the stale entry the inode is free, and a filesystem that hands freed inode numbers out again (ext4, xfs;
   InodeReuse = TRUE) may give the same number to the next worker's socket: the late unlink then removes the *live*
   worker's path.  Intended (FixUnlinkFirst = TRUE): unlink-if-ours first, close second -- while the listener is open
   its inode cannot be freed, so the identity test cannot be fooled.

   Configuration (chosen in Init): hashed = TRUE -- the socket path is derived from the command hash, launch() writes a
   <hash>.meta file before spawning; FALSE -- LaunchConfig.socket_path is given (sibling lock file, no .meta).
   Worker stdout: the launcher reads lines until `UNIX:<path>`; a worker may print other lines first (noise[w] of them):
   each is one LReadNoise step of the real _spawn_worker loop.
   Garbage collector g (gc_state_dir: the `--gc` command line, or the opportunistic pass another command's launcher
   runs after releasing its own lock): start -GStart-> try -GTry-> probe | done -GProbe-> done.  It enumerates
   .meta files, takes the per-hash lock WITHOUT blocking, probes, and unlinks socket + meta only if nobody answers.

   Environment assumption: a worker does not leave `serving` while the launcher that spawned it still waits for its
   readiness line (the startup grace of max(idle_timeout, 60) s covers that wait).                                *)
EXTENDS Naturals, FiniteSets, TLC

CONSTANTS NLaunch,           \* number of concurrent launcher processes (each spawns at most one worker)
          FixUnlinkFirst,    \* worker exit: unlink-if-ours before closing the listener (intended) / after (shipped)
          InodeReuse,        \* the filesystem may hand a freed inode number out again
          HashedSet,         \* path modes explored: TRUE = hashed path (+ .meta), FALSE = explicit socket_path
          NoiseSet,          \* how many non-UNIX: lines a worker prints before its readiness line
          GcInit             \* {"start"} = a gc_state_dir pass runs concurrently, {"off"} = none
Launchers == 1..NLaunch
Workers == 1..NLaunch
G == NLaunch + 1             \* the collector's identity as a lock holder

VARIABLES hashed,             \* configuration of this run
          pc, res, mine,      \* launcher: program counter, how launch() ended, the worker it spawned (0 = none)
          lk,                 \* holder of the per-hash file lock (0 = free)
          wst, nW,            \* worker state, number of workers created so far
          noise,              \* worker: stdout lines still to be read before the readiness line
          path,               \* 0 = no socket entry at the path, w = the entry is worker w's socket inode
          ino,                \* inode number of worker w's socket (0 = not bound yet); a fresh number is w itself
          meta,               \* the <hash>.meta file exists
          gpc,                \* the collector
          badSpawn, badReturn \* ghost: evaluated at spawn / at return
vars == <<hashed, pc, res, mine, lk, wst, nW, noise, path, ino, meta, gpc, badSpawn, badReturn>>

Init == /\ hashed \in HashedSet /\ gpc \in GcInit /\ meta = FALSE
        /\ pc = [i \in Launchers |-> "start"] /\ res = [i \in Launchers |-> "none"] /\ mine = [i \in Launchers |-> 0]
        /\ lk = 0 /\ wst = [w \in Workers |-> "none"] /\ nW = 0 /\ path = 0 /\ ino = [w \in Workers |-> 0]
        /\ noise = [w \in Workers |-> 0]
        /\ badSpawn = FALSE /\ badReturn = FALSE

Listening(w) == wst[w] = "serving" \/ (FixUnlinkFirst /\ wst[w] = "closing")     \* the listening socket is open
Serving == {w \in Workers : Listening(w)}
Alive == {w \in Workers : wst[w] \in {"start", "check", "bind"} \/ Listening(w)}   \* spawned, listener not closed yet
Accepting == path # 0 /\ Listening(path)                \* a connect() to the path succeeds
\* inode numbers still allocated if the path entry were p: held by an open listener or by the directory entry
InUse(p) == {ino[v] : v \in {u \in Workers : ino[u] # 0 /\ (Listening(u) \/ p = u)}}
EverUsed == {ino[v] : v \in {u \in Workers : ino[u] # 0}}

\* ---- launcher ----
LBegin(i) == /\ pc[i] = "start" /\ pc' = [pc EXCEPT ![i] = "lock"]
             /\ UNCHANGED <<hashed, res, mine, lk, wst, nW, noise, path, ino, meta, gpc, badSpawn, badReturn>>
\* FileLock.acquire(); _require_socket_or_absent()
LLock(i) == /\ pc[i] = "lock" /\ lk = 0 /\ lk' = i /\ pc' = [pc EXCEPT ![i] = "probe"]
            /\ UNCHANGED <<hashed, res, mine, wst, nW, noise, path, ino, meta, gpc, badSpawn, badReturn>>
\* _probe(): answered -> return the path (finally: release the lock)
LProbe(i) == /\ pc[i] = "probe"
             /\ IF Accepting
                THEN /\ pc' = [pc EXCEPT ![i] = "done"] /\ res' = [res EXCEPT ![i] = "probe"] /\ lk' = 0
                     /\ UNCHANGED badReturn
                ELSE /\ pc' = [pc EXCEPT ![i] = "unlink"] /\ UNCHANGED <<res, lk, badReturn>>
             /\ UNCHANGED <<hashed, mine, wst, nW, noise, path, ino, meta, gpc, badSpawn>>
\* _unlink_stale_socket(); _write_meta() (hashed paths only)
LUnlink(i) == /\ pc[i] = "unlink" /\ path' = 0 /\ pc' = [pc EXCEPT ![i] = "spawn"]
              /\ meta' = (meta \/ hashed)
              /\ UNCHANGED <<hashed, res, mine, lk, wst, nW, noise, ino, gpc, badSpawn, badReturn>>
\* _spawn_worker(): Popen; the worker will print nz lines of its own before the readiness line
LSpawn(i, nz) == /\ pc[i] = "spawn" /\ nW < NLaunch
                 /\ nW' = nW + 1 /\ wst' = [wst EXCEPT ![nW + 1] = "start"] /\ mine' = [mine EXCEPT ![i] = nW + 1]
                 /\ noise' = [noise EXCEPT ![nW + 1] = nz]
                 /\ badSpawn' = (badSpawn \/ Alive # {})
                 /\ pc' = [pc EXCEPT ![i] = "ready"]
                 /\ UNCHANGED <<hashed, res, lk, path, ino, meta, gpc, badReturn>>
\* _spawn_worker(): a line that does not start with UNIX: is skipped
LReadNoise(i) == /\ pc[i] = "ready" /\ noise[mine[i]] > 0
                 /\ noise' = [noise EXCEPT ![mine[i]] = noise[mine[i]] - 1]
                 /\ UNCHANGED <<hashed, pc, res, mine, lk, wst, nW, path, ino, meta, gpc, badSpawn, badReturn>>
\* _spawn_worker(): the UNIX:<path> line arrived (return the path) or the worker exited first (RuntimeError)
LReady(i) == /\ pc[i] = "ready" /\ noise[mine[i]] = 0 /\ wst[mine[i]] \in {"serving", "failed"}
             /\ pc' = [pc EXCEPT ![i] = "done"]
             /\ res' = [res EXCEPT ![i] = IF wst[mine[i]] = "serving" THEN "spawn" ELSE "error"]
             /\ badReturn' = (badReturn \/ (wst[mine[i]] = "serving" /\ ~Accepting))
             /\ lk' = IF lk = i THEN 0 ELSE lk
             /\ UNCHANGED <<hashed, mine, wst, nW, noise, path, ino, meta, gpc, badSpawn>>

\* ---- worker (serve_unix) ----
WStart(w) == /\ wst[w] = "start" /\ wst' = [wst EXCEPT ![w] = "check"]
             /\ UNCHANGED <<hashed, pc, res, mine, lk, nW, noise, path, ino, meta, gpc, badSpawn, badReturn>>
WCheck(w) == /\ wst[w] = "check"
             /\ wst' = [wst EXCEPT ![w] = IF Accepting THEN "failed" ELSE "bind"]
             /\ UNCHANGED <<hashed, pc, res, mine, lk, nW, noise, path, ino, meta, gpc, badSpawn, badReturn>>
\* _unlink_stale_unix_socket(); bind() allocates an inode: a fresh number, or one that is free by now
WBind(w) == /\ wst[w] = "bind" /\ path' = w /\ wst' = [wst EXCEPT ![w] = "serving"]
            /\ \E n \in {w} \cup (IF InodeReuse THEN EverUsed \ InUse(0) ELSE {}) : ino' = [ino EXCEPT ![w] = n]
            /\ UNCHANGED <<hashed, pc, res, mine, lk, nW, noise, meta, gpc, badSpawn, badReturn>>
WClose(w) == /\ wst[w] = "serving" /\ \A i \in Launchers : ~(pc[i] = "ready" /\ mine[i] = w)
             /\ wst' = [wst EXCEPT ![w] = "closing"]
             /\ UNCHANGED <<hashed, pc, res, mine, lk, nW, noise, path, ino, meta, gpc, badSpawn, badReturn>>
\* _unlink_bound_unix_socket(): unlink iff lstat(path) reports this worker's (st_dev, st_ino)   [+ close, if intended]
WUnlink(w) == /\ wst[w] = "closing" /\ wst' = [wst EXCEPT ![w] = "gone"]
              /\ path' = IF path # 0 /\ ino[path] = ino[w] THEN 0 ELSE path
              /\ UNCHANGED <<hashed, pc, res, mine, lk, nW, noise, ino, meta, gpc, badSpawn, badReturn>>

\* ---- gc_state_dir ----
\* glob("*.meta"): nothing to do without a .meta file
GStart == /\ gpc = "start" /\ gpc' = (IF meta THEN "try" ELSE "done")
          /\ UNCHANGED <<hashed, pc, res, mine, lk, wst, nW, noise, path, ino, meta, badSpawn, badReturn>>
\* FileLock(timeout=0).acquire(): held by a launcher -> skip this entry
GTry == /\ gpc = "try"
        /\ IF lk = 0 THEN lk' = G /\ gpc' = "probe" ELSE gpc' = "done" /\ UNCHANGED lk
        /\ UNCHANGED <<hashed, pc, res, mine, wst, nW, noise, path, ino, meta, badSpawn, badReturn>>
\* _probe(): a worker answers -> leave everything; nobody answers -> unlink socket, meta (and the lock file); release
GProbe == /\ gpc = "probe" /\ gpc' = "done" /\ lk' = 0
          /\ IF Accepting THEN UNCHANGED <<path, meta>> ELSE path' = 0 /\ meta' = FALSE
          /\ UNCHANGED <<hashed, pc, res, mine, wst, nW, noise, ino, badSpawn, badReturn>>

Next == \/ \E i \in Launchers : LBegin(i) \/ LLock(i) \/ LProbe(i) \/ LUnlink(i) \/ LReadNoise(i) \/ LReady(i)
                                 \/ \E nz \in NoiseSet : LSpawn(i, nz)
        \/ \E w \in Workers : WStart(w) \/ WCheck(w) \/ WBind(w) \/ WClose(w) \/ WUnlink(w)
        \/ GStart \/ GTry \/ GProbe
Spec == Init /\ [][Next]_vars

\* ---------------------------------------------------------------- property clauses (C33, first sentence)
AtMostOneServing == Cardinality(Serving) <= 1
SpawnOnlyIfNoneAlive == ~badSpawn             \* at most one worker is spawned per hash while one is alive
ReturnedAccepting == ~badReturn               \* launch returns a path that was accepting at that moment
\* (LProbe returns in the very step in which the probe's connect() succeeded, so only LReady can break it)

\* ---------------------------------------------------------------- model sanity
TypeOK == /\ lk \in 0..G /\ nW \in 0..NLaunch /\ path \in 0..NLaunch /\ \A w \in Workers : ino[w] \in 0..NLaunch
LockSane == /\ lk \in Launchers => pc[lk] \in {"probe", "unlink", "spawn", "ready"}
            /\ lk = G => gpc = "probe"
NoLaunchFails == \A i \in Launchers : res[i] # "error"
\* vacuity guards (expected to be violated)
NeverReuses == \A i \in Launchers : res[i] # "probe"
NeverRespawns == nW <= 1
NeverCollects == ~(gpc = "done" /\ ~meta /\ nW > 0)
=========================================================================================
