------------------------------------- MODULE LogOrder -------------------------------------
(* C08 (a) -- where client-directed log messages travel during ONE call, and when the client's callback sees them.

   Follows _ClientLogSink (buffer until a stream is open, then write through), OutputCollector (log batches and the
   data batch of a process() step in emission order), _serve_unary / _serve_stream / _write_stream_header and the HTTP
   turns (_run_stream_init_sync, _run_http_producer_turn, _run_http_exchange_turn) on the server side, and
   _read_unary_response / _read_header_batch / StreamSession / _init_http_stream_session / HttpStreamSession on the
   client side (every reader dispatches log batches through _dispatch_log_or_error before it returns anything).

   script = [tr, kind, hdr, n0, iraise, steps, ops]
     tr      "pipe" (socket transports) | "http" (one producer turn per response) | "http_buf" (producers only: the server
             is configured with max_response_bytes, so _run_http_producer_turn keeps calling process() and buffers the
             turns into ONE response until the stream finishes or fails -- here the cap is never reached)
     kind    "unary" | "prod" | "exch"
     n0      messages logged by the method body (before the result / before the header and the stream)
     iraise  the method body raises after logging
     steps   process() calls: [pre, act, post]: `pre` messages, then act = "emit" | "emitfin" | "fin" | "raise" | "emitraise",
             then (after an emitted batch) `post` messages; "emitraise" = out.emit(), `post` messages, then the step raises.
             A failed step delivers ALL the messages it logged -- those before and those after its out.emit() -- ahead of
             the error, and never its data batch (design documented by 2c0e64a)
     ops     client operations "t" tick / exchange | "i" iterate to the end | and the three ways of leaving a session:
             "c" close() | "x" cancel() | "w" leaving the `with` block (__exit__) -- each right after any turn, so that
             messages logged AFTER the batch of the last turn taken are met only while the session is being left

   Designs explored side by side (variable `design`, chosen in Init from the constant set Designs):
     "intended"  the design the clauses are checked on
     "lazy"      as "intended", but (P) HttpStreamSession.__iter__ reads a continuation response lazily: it hands out a
                 batch as soon as it meets it, so what follows that batch in the response (messages the turn logged after
                 out.emit()) is only read if the caller asks for another batch -- a caller that stops there never sees it
     "found"     the code as first found: (P), and (E) messages logged by a step / a stream method body that then raises
                 are NOT written before the error, and (T) HttpStreamSession.exchange discards whatever follows the data
                 batch in the response   [(E) and (T) were repaired in /repo: 2c0e64a, e33f37e]
   The clauses are invariants of the intended design; the other designs only contribute their histories, so that a real
   execution is compared (for drift, never for a verdict) with every design the code may currently implement.       *)
EXTENDS LogOrderClauses, TLC

CONSTANTS MaxSteps, Pres, Designs,
          FullHeaderGrid     \* FALSE: leave out (header declared, no message in the method body) -- used with the larger MaxSteps

\* ------------------------------------------------------------------------------------------ the space of calls
St(p, a, q) == [pre |-> p, act |-> a, post |-> q]
EmitSteps == {St(p, "emit", q) : p \in Pres, q \in {0, 1}}
\* failing steps: "raise" fails before it emitted anything; "emitraise" emits its batch, logs `post` more messages and only
\* then fails (post = 1: with post = 0 it is "raise" as far as messages go)
FailSteps == {St(p, "raise", 0) : p \in Pres} \cup {St(p, "emitraise", 1) : p \in Pres}
EndStepsProd == {St(p, "emitfin", q) : p \in Pres, q \in {0, 1}} \cup {St(p, "fin", 0) : p \in Pres} \cup FailSteps
EndStepsExch == FailSteps
RECURSIVE SeqsOfLen(_, _)
SeqsOfLen(S, n) == IF n = 0 THEN {<<>>} ELSE {Append(s, x) : s \in SeqsOfLen(S, n - 1), x \in S}
StepScripts(kind) == LET E == IF kind = "prod" THEN EndStepsProd ELSE EndStepsExch IN
                     UNION {{Append(s, t) : s \in SeqsOfLen(EmitSteps, n), t \in E} : n \in 0..(MaxSteps - 1)}
                     \cup SeqsOfLen(EmitSteps, MaxSteps)
OpsFor(kind) == IF kind = "prod" THEN {<<"i">>, <<"i", "c">>, <<"t", "c">>, <<"t", "x">>, <<"t", "w">>, <<"c">>, <<"x">>, <<"w">>,
                                        <<"t", "t", "c">>, <<"t", "t", "x">>, <<"t", "t", "w">>}
                ELSE {<<"t", "t", "c">>, <<"t", "t", "w">>, <<"t", "c">>, <<"t", "x">>, <<"t", "w">>, <<"t", "t", "x">>, <<"c">>, <<"x">>}
AllScripts ==
  {[tr |-> tp, kind |-> "unary", hdr |-> FALSE, n0 |-> n, iraise |-> ir, steps |-> <<>>, ops |-> <<>>] :
      tp \in {"pipe", "http"}, n \in {0, 1, 2}, ir \in BOOLEAN}
  \cup UNION {{[tr |-> tp, kind |-> kd, hdr |-> hd, n0 |-> n, iraise |-> FALSE, steps |-> st, ops |-> op] :
                  tp \in (IF kd = "prod" THEN {"pipe", "http", "http_buf"} ELSE {"pipe", "http"}),
                  hd \in BOOLEAN, n \in {0, 2}, st \in StepScripts(kd), op \in OpsFor(kd)} :
              kd \in {"prod", "exch"}}
  \cup {[tr |-> tp, kind |-> kd, hdr |-> hd, n0 |-> n, iraise |-> TRUE, steps |-> <<>>, ops |-> IF kd = "prod" THEN <<"i">> ELSE <<"t", "c">>] :
           tp \in {"pipe", "http"}, kd \in {"prod", "exch"}, hd \in BOOLEAN, n \in {0, 1, 2}}

Scripts == {sc \in AllScripts : FullHeaderGrid \/ sc.kind = "unary" \/ sc.iraise \/ ~(sc.hdr /\ sc.n0 = 0)}

VARIABLES script, design, c2s, s2c, srv, cli, em, rv
vars == <<script, design, c2s, s2c, srv, cli, em, rv>>

Init == /\ script \in Scripts
        /\ design \in Designs
        /\ c2s = <<>> /\ s2c = <<>>
        /\ srv = [pc |-> "idle", k |-> 0, nl |-> 0, nd |-> 0]
        /\ cli = [pc |-> "start", op |-> 0, cur |-> "-", closed |-> FALSE, ended |-> FALSE, pend |-> <<>>, tok |-> FALSE,
                  fin |-> FALSE, await |-> FALSE, cancelled |-> FALSE, derr |-> FALSE]
        /\ em = <<>> /\ rv = <<>>

FixLogsBeforeError == design \in {"intended", "lazy"}
FixHttpExchangeTail == design \in {"intended", "lazy"}
FixHttpProducerTail == design = "intended"
Http == script.tr \in {"http", "http_buf"}
Buf == script.tr = "http_buf"
Prod == script.kind = "prod"
Unary == script.kind = "unary"
PastEnd == IF Prod THEN St(0, "fin", 0) ELSE St(0, "emit", 0)
StepOf(i) == IF i <= Len(script.steps) THEN script.steps[i] ELSE PastEnd

\* wire items and emission events for `cnt` messages numbered from + 1 ..
LogItems(from, cnt) == [i \in 1..cnt |-> [t |-> "L", n |-> from + i]]
LogEvs(from, cnt) == [i \in 1..cnt |-> [e |-> "l", n |-> from + i]]
E0(e) == [e |-> e, n |-> 0]
Rv(e, n) == [e |-> e, n |-> n, c |-> IF e = "L" THEN "intact" ELSE ""]

\* ========================================================================================== server
\* one process() step: what is emitted (em), what is written (wire), the new server state
TurnEm(st, nl, nd) ==
  LogEvs(nl, st.pre)
  \o (CASE st.act = "emit"    -> <<[e |-> "d", n |-> nd + 1]>> \o LogEvs(nl + st.pre, st.post)
        [] st.act = "emitfin" -> <<[e |-> "d", n |-> nd + 1]>> \o LogEvs(nl + st.pre, st.post) \o <<E0("s")>>
        [] st.act = "fin"     -> <<E0("s")>>
        [] st.act = "raise"   -> <<E0("e")>>
        [] st.act = "emitraise" -> <<[e |-> "d", n |-> nd + 1]>> \o LogEvs(nl + st.pre, st.post) \o <<E0("e")>>)
TurnWire(st, nl, nd) ==
  CASE st.act = "emit"    -> LogItems(nl, st.pre) \o <<[t |-> "D", n |-> nd + 1]>> \o LogItems(nl + st.pre, st.post)
                             \o (IF ~Http \/ Buf THEN <<>> ELSE <<[t |-> IF Prod THEN "K" ELSE "$"]>>)
    [] st.act = "emitfin" -> LogItems(nl, st.pre) \o <<[t |-> "D", n |-> nd + 1]>> \o LogItems(nl + st.pre, st.post) \o <<[t |-> "Z"]>>
    [] st.act = "fin"     -> LogItems(nl, st.pre) \o <<[t |-> "Z"]>>
    [] st.act \in {"raise", "emitraise"} ->       \* the collector's log batches (all of them, not its data batch), then the error
                             (IF FixLogsBeforeError THEN LogItems(nl, st.pre + st.post) ELSE <<>>) \o <<[t |-> "E"]>>
                             \o (IF Http THEN (IF Prod THEN <<>> ELSE <<[t |-> "$"]>>) ELSE <<[t |-> "Z"]>>)
TurnOver(st) == st.act \in {"emitfin", "fin", "raise", "emitraise"}
AfterTurn(st) == [srv EXCEPT !.k = @ + 1, !.nl = @ + st.pre + st.post, !.nd = IF st.act \in {"emit", "emitfin", "emitraise"} THEN @ + 1 ELSE @,
                             !.pc = IF TurnOver(st) /\ (~Http \/ Prod) THEN "done" ELSE "loop"]

\* http_buf: every turn up to the end of the stream, written into one response
RECURSIVE BufEm(_, _, _), BufWire(_, _, _)
BufEm(k, nl, nd) == LET st == StepOf(k) IN
                    TurnEm(st, nl, nd) \o (IF TurnOver(st) THEN <<>> ELSE BufEm(k + 1, nl + st.pre + st.post, nd + 1))
BufWire(k, nl, nd) == LET st == StepOf(k) IN
                      TurnWire(st, nl, nd) \o (IF TurnOver(st) THEN <<>> ELSE BufWire(k + 1, nl + st.pre + st.post, nd + 1))

SInit ==
  /\ srv.pc = "idle" /\ c2s # <<>> /\ Head(c2s).t = "req"
  /\ c2s' = Tail(c2s)
  /\ LET n0 == script.n0
         L0 == LogItems(0, n0) IN
     IF Unary
     THEN \* the unary response stream is open while the method runs: messages are written through, then result or error
          /\ em' = em \o LogEvs(0, n0) \o <<E0(IF script.iraise THEN "e" ELSE "r")>>
          /\ s2c' = s2c \o L0 \o <<[t |-> IF script.iraise THEN "E" ELSE "R"]>>
          /\ srv' = [srv EXCEPT !.pc = "done", !.nl = n0]
     ELSE IF script.iraise
     THEN \* a stream method body that raises: its buffered messages belong in front of the error
          /\ em' = em \o LogEvs(0, n0) \o <<E0("e")>>
          /\ s2c' = s2c \o (IF FixLogsBeforeError THEN L0 ELSE <<>>) \o <<[t |-> "E"]>> \o (IF Http THEN <<>> ELSE <<[t |-> "Z"]>>)
          /\ srv' = [srv EXCEPT !.pc = "done", !.nl = n0]
     ELSE \* buffered messages are flushed into the first stream that opens: the header stream, else the output stream
          LET pre == IF script.hdr THEN L0 \o <<[t |-> "H"]>> ELSE L0
              hev == IF script.hdr THEN <<E0("h")>> ELSE <<>> IN
          IF Buf
          THEN /\ em' = em \o LogEvs(0, n0) \o hev \o BufEm(1, n0, 0)
               /\ s2c' = s2c \o pre \o BufWire(1, n0, 0)
               /\ srv' = [srv EXCEPT !.pc = "done"]
          ELSE IF Http /\ Prod
          THEN LET st == StepOf(1) IN
               /\ em' = em \o LogEvs(0, n0) \o hev \o TurnEm(st, n0, 0)
               /\ s2c' = s2c \o pre \o TurnWire(st, n0, 0)
               /\ srv' = [AfterTurn(st) EXCEPT !.nl = n0 + st.pre + st.post]
          ELSE /\ em' = em \o LogEvs(0, n0) \o hev
               /\ s2c' = s2c \o pre \o (IF Http THEN <<[t |-> "K"]>> ELSE <<>>)
               /\ srv' = [srv EXCEPT !.pc = "loop", !.nl = n0]
  /\ UNCHANGED <<script, design, cli, rv>>
SInput ==
  /\ srv.pc = "loop" /\ c2s # <<>> /\ Head(c2s).t = "in"
  /\ c2s' = Tail(c2s)
  /\ LET st == StepOf(srv.k + 1) IN
     /\ em' = em \o TurnEm(st, srv.nl, srv.nd)
     /\ s2c' = s2c \o TurnWire(st, srv.nl, srv.nd)
     /\ srv' = AfterTurn(st)
  /\ UNCHANGED <<script, design, cli, rv>>
SEnd ==
  /\ srv.pc = "loop" /\ c2s # <<>> /\ Head(c2s).t \in {"cx", "ie"}
  /\ c2s' = Tail(c2s)
  /\ s2c' = Append(s2c, [t |-> "Z"])
  /\ srv' = [srv EXCEPT !.pc = "done"]
  /\ UNCHANGED <<script, design, cli, em, rv>>
SDrain ==
  /\ srv.pc = "done" /\ c2s # <<>>
  /\ c2s' = Tail(c2s)
  /\ UNCHANGED <<script, design, s2c, srv, cli, em, rv>>
Server == SInit \/ SInput \/ SEnd \/ SDrain

\* ========================================================================================== client
NOps == Len(script.ops)
NextOp == IF cli.op < NOps THEN script.ops[cli.op + 1] ELSE "-"
Done(c) == [c EXCEPT !.pc = "ready", !.op = @ + 1, !.cur = "-", !.await = FALSE]
See(e, n) == rv' = Append(rv, Rv(e, n))
\* every reader hands log batches to the callback, in the order it meets them
RECURSIVE Deliver(_)
Deliver(q) == IF q = <<>> THEN <<>> ELSE (IF Head(q).t = "L" THEN <<Rv("L", Head(q).n)>> ELSE <<>>) \o Deliver(Tail(q))
RECURSIVE DataOf(_)
DataOf(q) == IF q = <<>> THEN <<>> ELSE (IF Head(q).t = "D" THEN <<Head(q).n>> ELSE <<>>) \o DataOf(Tail(q))
Has(q, t) == \E i \in 1..Len(q) : q[i].t = t
\* the prefix of q up to (excluding) the first item of kind t
RECURSIVE Upto(_, _)
Upto(q, t) == IF q = <<>> \/ Head(q).t = t THEN <<>> ELSE <<Head(q)>> \o Upto(Tail(q), t)

CCall ==
  /\ cli.pc = "start"
  /\ c2s' = Append(c2s, [t |-> "req"])
  /\ cli' = [cli EXCEPT !.pc = "rd_init"]
  /\ UNCHANGED <<script, design, s2c, srv, em, rv>>
\* unary (both transports): one complete response: messages, then the result or the error
CUnary ==
  /\ Unary /\ cli.pc = "rd_init" /\ s2c # <<>>
  /\ s2c' = <<>>
  /\ rv' = rv \o Deliver(s2c) \o <<Rv(IF Has(s2c, "E") THEN "E" ELSE "R", 0)>>
  /\ cli' = [cli EXCEPT !.pc = "nosession", !.ended = TRUE]
  /\ UNCHANGED <<script, design, c2s, srv, em>>
\* pipe stream call: returns after the header stream (messages in it are delivered first); an error stream in its
\* place fails the call
CSessionPipe ==
  /\ ~Unary /\ ~Http /\ cli.pc = "rd_init"
  /\ IF script.hdr
     THEN /\ s2c # <<>> /\ (Has(s2c, "H") \/ Has(s2c, "Z"))
          /\ IF Has(s2c, "H")
             THEN /\ rv' = rv \o Deliver(Upto(s2c, "H")) \o <<Rv("H", 0)>>
                  /\ s2c' = SubSeq(s2c, Len(Upto(s2c, "H")) + 2, Len(s2c))
                  /\ cli' = [cli EXCEPT !.pc = "ready"]
             ELSE /\ rv' = rv \o Deliver(Upto(s2c, "E")) \o <<Rv("E", 0)>>
                  /\ s2c' = <<>>
                  /\ cli' = [cli EXCEPT !.pc = "nosession", !.ended = TRUE]
     ELSE UNCHANGED <<s2c, rv>> /\ cli' = [cli EXCEPT !.pc = "ready"]
  /\ UNCHANGED <<script, design, c2s, srv, em>>
\* http stream call: the whole /init response is read; messages are delivered as they are met, batches are kept.  An
\* error in it fails the call itself only when nothing (no header, no batch) was received before it; otherwise it is kept
\* and raised once what was received has been handed to the caller
CSessionHttp ==
  /\ ~Unary /\ Http /\ cli.pc = "rd_init" /\ c2s = <<>> /\ srv.pc # "idle"
  /\ s2c' = <<>>
  /\ IF Has(s2c, "E") /\ ~Has(s2c, "H") /\ DataOf(Upto(s2c, "E")) = <<>>
     THEN /\ rv' = rv \o Deliver(Upto(s2c, "E")) \o <<Rv("E", 0)>>
          /\ cli' = [cli EXCEPT !.pc = "nosession", !.ended = TRUE]
     ELSE LET got == IF Has(s2c, "E") THEN Upto(s2c, "E") ELSE s2c IN
          /\ rv' = rv \o Deliver(got) \o (IF script.hdr THEN <<Rv("H", 0)>> ELSE <<>>)     \* the session (and its header) is
          /\ cli' = [cli EXCEPT !.pc = "ready", !.pend = DataOf(got), !.tok = Has(got, "K"),        \* handed over after all of /init
                                !.fin = ~Has(got, "K"), !.derr = Has(s2c, "E")]
  /\ UNCHANGED <<script, design, c2s, srv, em>>

CSkip ==
  /\ cli.pc = "ready" /\ NextOp \in {"t", "i"} /\ cli.ended
  /\ cli' = Done(cli)
  /\ UNCHANGED <<script, design, c2s, s2c, srv, em, rv>>
COpStart ==
  /\ cli.pc = "ready" /\ NextOp \in {"t", "i"} /\ ~cli.ended
  /\ cli' = [cli EXCEPT !.pc = "tick", !.cur = NextOp]
  /\ UNCHANGED <<script, design, c2s, s2c, srv, em, rv>>
GotData(c) == IF c.cur = "t" THEN Done(c) ELSE [c EXCEPT !.await = FALSE]
CTickPipe ==
  /\ ~Http /\ cli.pc = "tick"
  /\ IF ~cli.await
     THEN /\ c2s' = Append(c2s, [t |-> "in"]) /\ cli' = [cli EXCEPT !.await = TRUE] /\ UNCHANGED <<s2c, rv>>
     ELSE /\ s2c # <<>>
          /\ s2c' = Tail(s2c)
          /\ LET x == Head(s2c) IN
             CASE x.t = "L" -> See("L", x.n) /\ UNCHANGED <<c2s, cli>>
               [] x.t = "D" -> See("D", x.n) /\ cli' = GotData(cli) /\ UNCHANGED c2s
               [] x.t = "Z" -> /\ See("S", 0) /\ c2s' = Append(c2s, [t |-> "ie"])
                               /\ cli' = [Done(cli) EXCEPT !.closed = TRUE, !.ended = TRUE]
               [] x.t = "E" -> /\ See("E", 0) /\ c2s' = Append(c2s, [t |-> "ie"])
                               /\ cli' = [cli EXCEPT !.pc = "drain", !.cur = "e", !.closed = TRUE, !.ended = TRUE]
  /\ UNCHANGED <<script, design, srv, em>>
CTickHttpProd ==
  /\ Http /\ Prod /\ cli.pc = "tick"
  /\ IF cli.pend # <<>>
     THEN /\ See("D", Head(cli.pend)) /\ UNCHANGED <<c2s, s2c>>
          /\ cli' = [GotData(cli) EXCEPT !.pend = Tail(cli.pend)]
     ELSE IF cli.derr
     THEN /\ See("E", 0) /\ cli' = [Done(cli) EXCEPT !.ended = TRUE, !.derr = FALSE] /\ UNCHANGED <<c2s, s2c>>
     ELSE IF cli.fin
     THEN /\ See("S", 0) /\ cli' = [Done(cli) EXCEPT !.ended = TRUE] /\ UNCHANGED <<c2s, s2c>>
     ELSE IF s2c = <<>> /\ ~cli.await
     THEN /\ c2s' = Append(c2s, [t |-> "in"]) /\ cli' = [cli EXCEPT !.await = TRUE] /\ UNCHANGED <<s2c, rv>>
     ELSE IF FixHttpProducerTail
     THEN \* the continuation response is read completely (like /init): every message in it is delivered, its batches are
          \* kept and handed out one by one, an error behind them is raised once they were handed out
          /\ s2c # <<>> /\ s2c' = <<>> /\ UNCHANGED c2s
          /\ LET got == IF Has(s2c, "E") THEN Upto(s2c, "E") ELSE s2c IN
             /\ rv' = rv \o Deliver(got)
             /\ cli' = [cli EXCEPT !.pend = DataOf(got), !.tok = Has(got, "K"), !.fin = ~Has(got, "K"),
                                   !.derr = Has(s2c, "E"), !.await = FALSE]
     ELSE /\ s2c # <<>>
          /\ s2c' = Tail(s2c) /\ UNCHANGED c2s
          /\ LET x == Head(s2c) IN
             CASE x.t = "L" -> See("L", x.n) /\ UNCHANGED cli
               [] x.t = "D" -> See("D", x.n) /\ cli' = GotData(cli)
               [] x.t = "K" -> cli' = [cli EXCEPT !.await = FALSE] /\ UNCHANGED rv
               [] x.t = "Z" -> See("S", 0) /\ cli' = [Done(cli) EXCEPT !.ended = TRUE]
               [] x.t = "E" -> See("E", 0) /\ cli' = [Done(cli) EXCEPT !.ended = TRUE]
  /\ UNCHANGED <<script, design, srv, em>>
\* http exchange: one request; the response is read up to its data batch, then to its end
CTickHttpExch ==
  /\ Http /\ ~Prod /\ cli.pc = "tick"
  /\ IF ~cli.await
     THEN /\ c2s' = Append(c2s, [t |-> "in"]) /\ cli' = [cli EXCEPT !.await = TRUE] /\ UNCHANGED <<s2c, rv>>
     ELSE /\ Has(s2c, "$")
          /\ s2c' = <<>> /\ UNCHANGED c2s
          /\ IF Has(s2c, "E")
             THEN rv' = rv \o Deliver(Upto(s2c, "E")) \o <<Rv("E", 0)>> /\ cli' = [Done(cli) EXCEPT !.ended = TRUE]
             ELSE LET head == Upto(s2c, "D")
                      tail == SubSeq(s2c, Len(head) + 2, Len(s2c)) IN
                  /\ rv' = rv \o Deliver(head) \o (IF FixHttpExchangeTail THEN Deliver(tail) ELSE <<>>) \o <<Rv("D", s2c[Len(head) + 1].n)>>
                  /\ cli' = Done(cli)
  /\ UNCHANGED <<script, design, srv, em>>

\* leaving a session.  close() and __exit__ are the same operation; pipe: end of input, then the output is read to its
\* end; http: nothing is sent and nothing is read (every response was read completely when it arrived -- except by the
\* "lazy" producer iterator, which abandons what follows the last batch it handed out)
Quit == rv' = Append(rv, Rv("Q", 0))
CClose ==
  /\ cli.pc = "ready" /\ NextOp \in {"c", "w"}
  /\ IF Http
     THEN cli' = Done(cli) /\ UNCHANGED c2s /\ Quit
     ELSE IF cli.closed
     THEN cli' = Done(cli) /\ UNCHANGED c2s /\ Quit           \* already read to its end by the turn that ended it
     ELSE c2s' = Append(c2s, [t |-> "ie"]) /\ cli' = [cli EXCEPT !.pc = "drain", !.cur = NextOp, !.closed = TRUE] /\ UNCHANGED rv
  /\ UNCHANGED <<script, design, s2c, srv, em>>
CCancel ==
  /\ cli.pc = "ready" /\ NextOp = "x"
  /\ IF Http
     THEN cli' = [Done(cli) EXCEPT !.cancelled = TRUE, !.ended = TRUE] /\ UNCHANGED c2s /\ Quit
     ELSE IF cli.closed
     THEN cli' = [Done(cli) EXCEPT !.cancelled = TRUE, !.ended = TRUE] /\ UNCHANGED c2s /\ Quit
     ELSE /\ c2s' = c2s \o <<[t |-> "cx"], [t |-> "ie"]>> /\ UNCHANGED rv
          /\ cli' = [cli EXCEPT !.pc = "drain", !.cur = "x", !.closed = TRUE, !.cancelled = TRUE, !.ended = TRUE]
  /\ UNCHANGED <<script, design, s2c, srv, em>>
\* pipe: close / cancel / __exit__ / the close after an error read the output to its end; messages met on the way are
\* delivered to the callback like anywhere else (StreamSession._drain_output)
CDrain ==
  /\ cli.pc = "drain" /\ s2c # <<>>
  /\ s2c' = Tail(s2c)
  /\ LET x == Head(s2c) IN
     CASE x.t = "L" -> See("L", x.n) /\ UNCHANGED cli
       [] x.t = "Z" -> cli' = Done(cli) /\ (IF cli.cur \in {"c", "x", "w"} THEN Quit ELSE UNCHANGED rv)
       [] OTHER     -> UNCHANGED <<cli, rv>>
  /\ UNCHANGED <<script, design, c2s, srv, em>>

Client == CCall \/ CUnary \/ CSessionPipe \/ CSessionHttp \/ CSkip \/ COpStart \/ CTickPipe \/ CTickHttpProd
          \/ CTickHttpExch \/ CClose \/ CCancel \/ CDrain
Next == Client \/ Server
Spec == Init /\ [][Next]_vars

\* ========================================================================================== properties
ClientDone == (cli.pc = "ready" /\ cli.op = NOps) \/ cli.pc = "nosession"
Finished == ClientDone /\ ~ENABLED Server
Inv_ExactlyOnceNoDuplicate == design = "intended" => ExactlyOnceNoDuplicate(em, rv)
Inv_OnlyEmitted == design = "intended" => OnlyEmitted(em, rv)
Inv_InEmissionOrder == design = "intended" => InEmissionOrder(em, rv)
Inv_DeliveredBeforeOutcome == design = "intended" => DeliveredBeforeOutcome(em, rv)
Inv_DeliveredByEndOfStream == design = "intended" => DeliveredByEndOfStream(em, rv)
Inv_ContentPreserved == design = "intended" => ContentPreserved(em, rv)
NoWedge == (~ENABLED Next) => ClientDone
\* model sanity: a call that was read to its end (unary, a finished iteration, a pipe session that was closed) lost nothing
ReadToEnd == Unary \/ (~Http /\ cli.closed) \/ (Http /\ Prod /\ \E i \in 1..Len(rv) : rv[i].e = "S")
NothingLost == (design = "intended" /\ Finished /\ ReadToEnd) =>
                  \A p \in 1..Len(em) : em[p].e = "l" => \E j \in 1..Len(rv) : rv[j].e = "L" /\ rv[j].n = em[p].n
==========================================================================================
