"""C12 -- stream state tokens are unforgeable, identity-bound and opaque.
spec/http/TokenForge.tla (decision table) + spec/http/HttpStream.tla (token/cache state machine)."""
import base64
import re

from drivers import _http_world as H
from drivers.c14 import TICK_S, TTL_TICKS, consts
from vf import table
from vf.core import Ctx
from vf.tlc import MachineryError, render_cfg, require_ok, run_tlc, sany

META = {
    "engine": "http",
    "text": "TLC enumerates TokenForge!Cases (which token x manipulation x age relative to TTL x cache state x "
            "continue/cancel x token expiry on/off, incl. a genuine call token older than the TTL next to a fresh cursor and "
            "complete foreign cursor+call pairs) and model-checks HttpStream.tla (served only with a genuine, same-identity, "
            "same-stream, fresh token pair); every row is concretised on real workers with many concrete manipulations "
            "of real tokens (every byte of both tokens flipped -- every bit in thorough --, every truncation length, "
            "extensions, non-canonical base64 re-encodings, kind swaps, stream swaps, keys of lengths 1..64, identity "
            "pairs whose concatenations coincide, clock at TTL-1/TTL/TTL+1); status, rejection body, the log of "
            "process/rehydrate/bind_call_state/on_cancel hooks and the token bytes are recorded and judged by TLC.",
    "note": "Trusted: identities come from a test authenticator; 'uniform' compares the rejection's error text after "
            "removing request/server ids; opacity is an implementation observation (a marker string in the state must "
            "not appear in raw or base64-decoded token bytes), not something TLA+ proves.",
}
_RID = re.compile(rb"[0-9a-f]{12,32}")


def _dec(tok: bytes) -> bytes:
    return base64.b64decode(tok + b"=" * (-len(tok) % 4))


def _variants(tok: bytes, mut: str, rng, quick: bool, other_kind: bytes, other_stream: bytes, foreign: list, cross: list):
    raw = _dec(tok)
    enc = base64.b64encode
    if mut == "none":
        return [tok]
    if mut == "flip":
        out = []
        pos = range(len(raw))
        for p in pos:
            for mask in ((1 << rng.randrange(8),) if quick else (1, 2, 4, 8, 16, 32, 64, 128)):
                b = bytearray(raw)
                b[p] ^= mask
                out.append(enc(bytes(b)))
        return out
    if mut == "trunc":
        lens = range(len(raw)) if not quick else sorted(set(list(range(0, len(raw), 5)) + [1, 12, 13, 28, 29, len(raw) - 16, len(raw) - 1]))
        return [enc(raw[:k]) for k in lens if 0 <= k < len(raw)] + [tok[:-1], tok[:-4], tok[: len(tok) // 2]]
    if mut == "extend":
        return [enc(raw + b"\x00"), enc(raw + raw[-16:]), enc(raw + bytes(rng.randrange(256) for _ in range(64))), tok + b"AAAA"]
    if mut == "reencode":
        outs = []
        t = tok.rstrip(b"=")
        if len(t) % 4 in (2, 3):      # non-canonical trailing bits
            last = t[-1:]
            alph = b"ABCDEFGHIJKLMNOPQRSTUVWXYZabcdefghijklmnopqrstuvwxyz0123456789+/"
            i = alph.index(last)
            outs.append(t[:-1] + alph[i ^ 1 : (i ^ 1) + 1] + b"=" * (-len(t) % 4))
        outs += [tok.replace(b"+", b"-").replace(b"/", b"_"), tok + b"\n", b" " + tok, tok.rstrip(b"="), tok + b"="]
        return [o for o in outs if o != tok]
    if mut == "garbage":
        return [b"x", b"!!!!", b"A" * 5000, enc(bytes(rng.randrange(256) for _ in range(len(raw)))), b"", tok[::-1]]
    if mut == "swapkind":
        return [other_kind]
    if mut == "swapstream":
        return [other_stream]
    if mut == "foreignkey":
        return foreign
    if mut == "crossident":
        return cross
    if mut in ("absent",):
        return [None]
    if mut == "stale":
        return [tok]        # untouched; the driver ages it past the TTL while keeping the cursor fresh
    raise ValueError(mut)


def run(ctx: Ctx) -> None:
    wd = ctx.wd.stage("http")
    sany(wd, "HttpStream")
    r = run_tlc(wd, "HttpStream", render_cfg(constants=consts(3, False, "{0, 1}", max_clock=4, fix=(True, True, True, True)),
                                             invariants=["TypeOK", "ServedOnlyGenuinePair", "ServedImpliesColdOK", "HitSameIdentity"]), timeout=1500)
    ctx.add_tlc("HttpStream exhaustive (intended design incl. FixHitChecksCall)", r)
    require_ok(r, "HttpStream ServedOnlyGenuinePair")
    ascoded = run_tlc(wd, "HttpStream", render_cfg(constants=consts(2, False, "{1}", max_clock=0, streams=2, fix=(True, True, True, False)),
                                                   invariants=["ServedOnlyWithOwnOrNoCall", "ServedOnlyGenuinePair"]))
    ctx.extra["design_as_coded_violates"] = ascoded.violated   # a hit is honoured without a call token (known finding)
    if ascoded.violated != "ServedOnlyGenuinePair":
        raise MachineryError(f"the as-coded design should violate only ServedOnlyGenuinePair, TLC says {ascoded.violated} {ascoded.error}")
    asfound = run_tlc(wd, "HttpStream", render_cfg(constants=consts(3, False, "{2}", max_clock=0, streams=2, fix=(True, True, False, False)),
                                                   invariants=["ServedOnlyWithOwnOrNoCall"]))
    ctx.extra["design_as_found_violates"] = asfound.violated   # before 4f2decc a hit ignored the call token altogether
    if asfound.violated != "ServedOnlyWithOwnOrNoCall":
        raise MachineryError(f"the as-found design should violate ServedOnlyWithOwnOrNoCall, TLC says {asfound.violated} {asfound.error}")
    cases = table.enumerate_cases(ctx, "http", "TokenForge", invariants=["OnlyUntouchedServed", "ExpiredNeverServed", "CacheIrrelevant"])
    ctx.exhaustive = True
    ctx.rule = ("case = one continuation/cancel request carrying one concretely manipulated token; non-trivial = distinct "
                "(row, concrete token bytes)")
    clock = H.Clock()
    obs, meta = [], []
    ttl = TTL_TICKS * TICK_S
    key = b"C" * 32
    try:
        t0 = clock.now
        warm = H.Worker(key, 64, ttl, "w1")
        cold = H.Worker(key, 0, ttl, "w2")
        warm_off = H.Worker(key, 64, 0, "w1")       # the same deployment with token_ttl = 0 (expiry disabled)
        cold_off = H.Worker(key, 0, 0, "w2")
        ref = {}
        # foreign-key tokens (keys of several lengths) and sanity that odd key lengths work at all
        foreign_pairs = []
        for kl in (16, 31, 32, 33, 64):
            try:
                fw = H.Worker(bytes([kl]) * kl, 4, ttl, f"f{kl}")
            except Exception as e:  # noqa: BLE001 - a key length the framework refuses outright
                ctx.extra.setdefault("key_lengths_refused", []).append([kl, type(e).__name__])
                continue
            fi = fw.init("xa", "A")
            foreign_pairs.append((fi["cursor"], fi["call"]))
            ok = fw.cont("xa", "A", fi["cursor"], fi["call"])
            if not ok["served"]:
                ctx.violation("GenuineServed", {"which": "keylen", "mut": "none", "keylen": kl}, {"error": ok["error"]})
        for ci, cj in enumerate(cases):
            c = cj["case"]
            for ident in (("A",) if ctx.quick and c["mut"] in ("flip", "trunc") else ("A", "anon")):
                clock.now = t0
                w_init = warm if c["ttl"] == "on" else warm_off
                a = w_init.init("xa", ident)
                b = w_init.init("xa", ident)          # another stream of the same identity and method
                others = [i for i in ("anon", "A", "B", "C") if i != ident]
                cross_tokens = {o: w_init.init("xa", o) for o in others}
                cur, call = a["cursor"], a["call"]
                for tok in (cur, call):
                    if H.SECRET.encode() in tok or H.SECRET.encode() in _dec(tok):
                        pass
                leak = any(H.SECRET.encode() in t or H.SECRET.encode() in _dec(t) for t in (cur, call))
                if c["which"] == "both":
                    # a complete foreign pair: (cursor, call) of another identity's stream / of a worker with another key
                    pairs_ = [(x["cursor"], x["call"]) for x in cross_tokens.values()] if c["mut"] == "crossident" else list(foreign_pairs)
                    vs = pairs_
                target = cur if c["which"] == "cursor" else call
                vs = vs if c["which"] == "both" else _variants(target, c["mut"], ctx.rng, ctx.quick,
                               other_kind=call if c["which"] == "cursor" else cur,
                               other_stream=b["cursor"] if c["which"] == "cursor" else b["call"],
                               foreign=[p[0] if c["which"] == "cursor" else p[1] for p in foreign_pairs],
                               cross=[(x["cursor"] if c["which"] == "cursor" else x["call"]) for x in cross_tokens.values()])
                wk = (warm if c["cache"] == "warm" else cold) if c["ttl"] == "on" else (warm_off if c["cache"] == "warm" else cold_off)
                clock.now = t0 + {"lt": ttl - 1, "eq": ttl, "gt": ttl + 1}[c["age"]]
                if c["mut"] == "stale":
                    # keep the stream alive up to the last instant its call token is valid, on the judged worker:
                    # that continuation hands out a fresh cursor; one second later the call token is beyond the TTL
                    clock.now = t0 + ttl
                    ka = wk.cont("xa", ident, cur, call)
                    if not ka["served"] or ka["cursor"] is None:
                        ctx.violation("GenuineServed", {"which": "call", "mut": "keepalive", "age": "eq", "cache": c["cache"], "op": "continue",
                                                        "message_class": None}, {"error": ka["error"]})
                        continue
                    cur = ka["cursor"]
                    clock.now = t0 + ttl + 1
                for vi, v in enumerate(vs):
                    pc, pl = v if c["which"] == "both" else (v, call) if c["which"] == "cursor" else (cur, v)
                    n0 = len(H.HOOKS)
                    r_ = wk.cont("xa", ident, pc, pl, cancel=c["op"] == "cancel")
                    hooks = H.HOOKS[n0:]
                    served = r_["served"]
                    body = _RID.sub(b"#", (r_["error"] or {}).get("message", "").encode())
                    if not served and r_["status"] == 400:
                        ref.setdefault("body", body)
                    o = {"served": bool(served), "status": r_["status"], "hooks": len(hooks) if not served else 0,
                         "uniform": (not served and r_["status"] == 400 and body == ref.get("body")) or served or r_["status"] != 400,
                         "leak": bool(leak)}
                    obs.append({"case": c, "obs": o})
                    vrep = v[0] if c["which"] == "both" else v
                    meta.append({"ident": ident, "variant": vi, "message": (r_["error"] or {}).get("message"), "hooks": hooks,
                                 "token_len": None if vrep is None else len(vrep)})
                    ctx.case([c, ident, None if vrep is None else bytes(vrep).hex()[:64], vi],
                             sample={"row": c, "ident": ident, "variant": vi, "observed": o, "message": (r_["error"] or {}).get("message")}
                             if ci % 131 == 0 and vi == 0 else None)
    finally:
        clock.restore()
    for idx, clauses in table.judge(ctx, "http", "TokenForge", obs):
        c = obs[idx]["case"]
        for cl in clauses:
            msg = meta[idx]["message"] or ""
            ctx.violation(cl, {"which": c["which"], "mut": c["mut"], "age": c["age"], "cache": c["cache"], "op": c["op"], "ttl": c["ttl"],
                               "message_class": re.sub(r"[^A-Za-z ]", "", msg)[:90] if cl == "UniformRejection" else None},
                          {"observed": obs[idx]["obs"], **meta[idx]})
