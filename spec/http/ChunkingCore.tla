--------------------------------- MODULE ChunkingCore ---------------------------------
(* C11 -- the producer turn loop of vgi_rpc/http/server/_app_stream.py:_run_http_producer_turn as a function,
   and the judge of recorded real turns / client runs.  No variables; Chunking.tla is the state machine.

   A producer script is a sequence of batch-cycle sizes (one process() call = one cycle = log batches + one
   data batch).  Sizes are naturals: small units in the model, measured IPC bytes when TLC judges real turns.
   cap = None (0) means max_response_bytes is not configured (real caps are >= 1).

   One turn, as coded:
       body := hdr                                   (the IPC schema message; what resp_buf.tell() starts from)
       loop:  snapshot budget;  process();
              script exhausted            -> finish(): the turn ends WITHOUT a continuation sentinel
              write the cycle: body += size
              producer finished with this batch (eager) -> turn ends, no sentinel
              cap # None /\ Seen(body) < cap           -> loop
              otherwise                                -> mint cursor(pos), write sentinel, turn ends
   Seen(body) is the position the loop reads.  Intended: every byte written into the turn's IPC stream.  As
   coded (hidden = TRUE): when a response codec was negotiated, a continuation turn writes through a compressor
   and reads the position of the buffer *behind* it, which stays 0 until the codec flushes a block (>= 64 KiB), so
   for bodies below that the cap is never reached.                                                            *)
EXTENDS Naturals, Sequences, FiniteSets, TLC

None == 0

SeenBy(body, hidden) == IF hidden THEN 0 ELSE body

\* result: n = data batches written, body = hdr + cycles written (sentinel and end-of-stream marker excluded),
\*         fin = the stream finished in this turn (no sentinel), last = size of the last cycle written (0 if none)
RECURSIVE Loop(_, _, _, _, _, _, _, _)
Loop(script, eager, pos, body, n, last, cap, hidden) ==
  IF pos >= Len(script) THEN [n |-> n, body |-> body, fin |-> TRUE, last |-> last]       \* (>=: total on any observed position)
  ELSE LET sz == script[pos + 1]
           b2 == body + sz IN
       IF eager /\ pos + 1 = Len(script) THEN [n |-> n + 1, body |-> b2, fin |-> TRUE, last |-> sz]
       ELSE IF cap # None /\ SeenBy(b2, hidden) < cap
            THEN Loop(script, eager, pos + 1, b2, n + 1, sz, cap, hidden)
            ELSE [n |-> n + 1, body |-> b2, fin |-> FALSE, last |-> sz]

Turn(script, eager, from, hdr, cap, hidden) == Loop(script, eager, from, hdr, 0, 0, cap, hidden)

\* batches from+1 .. from+n as the sequence of their ids
Ids(from, n) == [i \in 1..n |-> from + i]

\* -------------------------------------------------------------------------------- statement clauses on one turn
\* "A turn's body exceeds the cap by at most the last batch written" -- framing (schema message, continuation
\* sentinel, end-of-stream marker; DESIGN 7a) excluded.  Written without subtraction so it is defined on naturals.
OvershootOK(cap, body, framing, last, n) == (cap # None /\ n >= 1) => body <= cap + last + framing

\* -------------------------------------------------------------------------------- judging the real code
(* Observations come in two kinds (field t):

   "turn": one real HTTP response of a producer stream
       c = [t, script (measured cycle bytes of the whole stream), eager, from, hdr, cap, coded (a codec was
            negotiated and this is a continuation turn), kind]
       o = [ids (data batch ids in body order, 0 = a batch whose content is not the script's), wire (body bytes
            as sent), framing (schema + sentinel + EOS [+ header stream] bytes, decoded), last (bytes of the last
            cycle), sentinel]
   "run": what one client session iterated until it ended
       c = [t, n (script length), origin (0 = from init, i = resumed from the token minted after batch i)]
       o = [ids, ended ("finished" | "error")]                                                            *)
(* Concretisation classes of one abstract configuration (they do not change the turn arithmetic, so they are not
   fields of cfg; the driver rotates through them and every observation is judged by the same clauses):
     state shape of the method   cursor-only state | immutable call state + cursor | union-typed state (either member,
                                 tagged in the cursor token, call-state type resolved per member) | header-declaring
                                 (the header stream of /init is framing; a resumed session never sees it again)
     batch shape                 1 row | 0 rows | many rows, with application metadata (a zero-row data batch is data,
                                 not a sentinel: only STATE_KEY makes a sentinel)
     script                      includes the empty script (a producer that finishes in its first tick)
     deployment                  URL prefix "" | "/vgi";  codec negotiated on Accept-Encoding | X-VGI-Accept-Encoding   *)
Cases == {}
Expected(c) == 0

Conforms(c, o) ==
  IF c.t = "turn" THEN
    LET n == Len(o.ids)
        ti == Turn(c.script, c.eager, c.from, c.hdr, c.cap, FALSE)       \* intended split
        tf == Turn(c.script, c.eager, c.from, c.hdr, c.cap, c.coded)     \* split of the code as found
        shape(t) == n = t.n /\ o.sentinel = ~t.fin
    IN   {"Overshoot"   : x \in {1} \cap (IF OvershootOK(c.cap, o.wire, o.framing, o.last, n) THEN {} ELSE {1})}
    \cup {"ModelAgrees" : x \in {1} \cap (IF o.ids = Ids(c.from, n) /\ (shape(ti) \/ shape(tf)) THEN {} ELSE {1})}
  ELSE
    LET want == Ids(c.origin, c.n - c.origin)
        good == o.ids = want /\ o.ended = "finished"
    IN   {"SameSequence" : x \in {1} \cap (IF c.origin = 0 => good THEN {} ELSE {1})}
    \cup {"ResumeExact"  : x \in {1} \cap (IF c.origin > 0 => good THEN {} ELSE {1})}
=========================================================================================
