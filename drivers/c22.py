"""C22 -- proxy-proof verification equals the normative nine-step table.  Spec: spec/data/ProofTable.tla."""
import base64
import hashlib
import hmac
import logging
import warnings
from typing import Protocol

import falcon.testing as ft

from drivers._data_util import enumerate_cases, faithful_counterexample, judge_dedup
from vf import world
from vf.core import Ctx
from vf.tlc import Raw

META = {
    "engine": "data",
    "text": "ProofTable.tla transcribes section 6 of docs/proxy-proof-spec.md as a total function over field-level "
            "faults (header absent/empty/multi-instance/over-long, field count, version, charset of each of the four "
            "fields, kid known (two configured kids = rotation overlap) / unknown, clock at skew-1/skew/skew+1 on "
            "both sides, six MAC relations, six nonce histories incl. a replay through the other configured kid).  TLC enumerates every combination of structural "
            "faults (steps 2-4) x every combination of later-step failures (steps 5-9), plus the full semantic product "
            "for structurally clean headers (14,402 cases quick, about 92,700 thorough), with the reason of the first failing "
            "step, checks eight table-sanity invariants and refutes the faithful variant (Dev_GateEmptyIsAbsent).  Each "
            "case is concretised into real HMAC-keyed headers (several mutations per fault, exact 512/513-byte "
            "boundaries) and run through verify_proof (injected clock and NonceCache clock), through the require-mode "
            "proxy_proof_gate on a real falcon.Request, through the allow-mode gate (answer recorded in the claims), with the "
            "default clocks (now=None: wall clock / monotonic cache, a minute away from the window edge), and (subset) through "
            "the full WSGI app for the 401, both as require_all(gate) and as require_all(gate, bearer authenticator); TLC judges "
            "every observation with ProofTable!Conforms.",
    "note": "Trusted: the transcription of the nine-step table; the harness's own HMAC/canonical-string "
            "implementation of spec section 4 (independent of vgi_rpc); the per-fault mutation lists.  Set-valued "
            "rows: non-canonical base64 trailing bits in the MAC ({ok,bad_mac}); nonce re-presented exactly `skew` "
            "cache-seconds after acceptance ({ok,replayed}).  Clock-advanced nonce histories go through "
            "verify_proof only (the gate's cache uses the real monotonic clock).  HTTP leg is a subset of cases.",
}

ALPHA = "ABCDEFGHIJKLMNOPQRSTUVWXYZabcdefghijklmnopqrstuvwxyz0123456789-_"
REASONS = ("no_proof", "malformed", "unknown_kid", "expired", "not_yet_valid", "bad_mac", "replayed")
ORIGIN = "worker-A/eu1:8443"
OTHER_ORIGINS = ["worker-B/eu1:8443", ORIGIN + "x", ORIGIN[:-1], ORIGIN.upper()]
KID = {"k1": "PRXaaQ7", "k2": "PRXaaQ7-v2"}
UNKNOWN_KIDS = ["PRXzzQ9", "PRXaaQ7-v3", "prxaaq7", "PRXaaQ", "k", "PRXaaQ7_v2"]
LABEL = "edge-proxy-use1"
SKEWS = [30, 2, 600]
AGE = {"gtP": lambda s: s + 1, "eqP": lambda s: s, "ltP": lambda s: s - 1, "zero": lambda s: 0,
       "ltN": lambda s: -(s - 1), "eqN": lambda s: -s, "gtN": lambda s: -(s + 1)}


class C22Svc(Protocol):
    def u(self, x: int) -> int: ...


class C22Impl:
    def u(self, x: int) -> int:
        return x + 1


def b64(raw: bytes) -> str:
    return base64.urlsafe_b64encode(raw).rstrip(b"=").decode("ascii")


def spec_mac(secret: bytes, kid: str, ts: str, nonce: str, origin: str, frame: int = -1) -> bytes:
    """Section 4 of the spec, implemented by the harness (not by vgi_rpc).  frame >= 0: a wrong framing."""
    f = [x.encode("utf-8") for x in (kid, ts, nonce, origin)]
    pre = b"vgi.proxy.proof.v1"
    if frame < 0:
        msg = b"\x00".join([pre, *f])
    else:
        msg = [b".".join([pre, *f]), b"\x00".join(f), pre + b"".join(f), b"\x00".join([pre, f[1], f[0], f[2], f[3]]),
               b"\x00".join([pre, f[0], f[1], f[2]]), b"\x00".join([pre, *f]) + b"\x00",
               b"\x00".join([b"vgi.proxy.proof.v2", *f]), b"\x00".join([pre, f[0], f[1], f[2], b""])][frame % 8]
    return hmac.new(secret, msg, hashlib.sha256).digest()


# (mutation, wire_safe, ascii).  wire_safe: survives an HTTP server unchanged (no CR/LF/NUL, not leading/trailing
# whitespace of the whole header value, latin-1 only).
VER_BAD = [("v2", 1, 1), ("V1", 1, 1), ("v1x", 1, 1), ("", 1, 1), ("1", 1, 1), ("v01", 1, 1), ("v1 ", 1, 1),
           ("v", 1, 1), ("v1=", 1, 1), ("v\xe91", 1, 0), (" v1", 0, 1), ("v1\n", 0, 1), ("ｖ1", 0, 0), ("v1\x00", 0, 1)]
KID_BAD = [(lambda k: "", 1, 1), (lambda k: k + "+", 1, 1), (lambda k: k + " ", 1, 1), (lambda k: "\xe9" + k, 1, 0),
           (lambda k: k + "=", 1, 1), (lambda k: k + "/", 1, 1), (lambda k: k + "~", 1, 1), (lambda k: "a" * 65, 1, 1),
           (lambda k: k + "%41", 1, 1), (lambda k: k + ":", 1, 1), (lambda k: k + "\n", 0, 1),
           (lambda k: k + "\x00", 0, 1), (lambda k: "ｋ" + k, 0, 0), (lambda k: "\n" + k, 0, 1)]
TS_BAD = [(lambda t: "", 1, 1), (lambda t: "+" + t, 1, 1), (lambda t: "-" + t, 1, 1), (lambda t: t + " ", 1, 1),
          (lambda t: t[:-1] + "x", 1, 1), (lambda t: "1" * 21, 1, 1), (lambda t: t[:1] + "_" + t[1:], 1, 1),
          (lambda t: "0x" + t, 1, 1), (lambda t: "1e9", 1, 1), (lambda t: " " + t, 1, 1), (lambda t: t + "\xb2", 1, 0),
          (lambda t: "".join(chr(0x660 + int(c)) for c in t), 0, 0), (lambda t: t + "\n", 0, 1),
          (lambda t: "".join(chr(0xFF10 + int(c)) for c in t), 0, 0), (lambda t: t + "\x00", 0, 1)]
NONCE_BAD = [(lambda n: n[:-1], 1, 1), (lambda n: n + "A", 1, 1), (lambda n: n[:-1] + "+", 1, 1),
             (lambda n: n[:-1] + "/", 1, 1), (lambda n: n[:-2] + "==", 1, 1), (lambda n: n + "==", 1, 1),
             (lambda n: n[:-1] + "\xe9", 1, 0), (lambda n: n[:-1] + " ", 1, 1), (lambda n: "", 1, 1),
             (lambda n: n[:-1] + "=", 1, 1), (lambda n: n + "\n", 0, 1), (lambda n: n[:-1] + "\x00", 0, 1),
             (lambda n: n[:-1] + "\n", 0, 1)]
MAC_BAD = [(lambda m: m[:-1], 1, 1), (lambda m: m + "A", 1, 1), (lambda m: m + "=", 1, 1), (lambda m: m[:-1] + "+", 1, 1),
           (lambda m: m[:-1] + "/", 1, 1), (lambda m: m[:-1] + "\xe9", 1, 0), (lambda m: "", 1, 1),
           (lambda m: m[:10] + " " + m[11:], 1, 1), (lambda m: m[:-1] + "=", 1, 1), (lambda m: m[:20], 1, 1),
           (lambda m: m + "\n", 0, 1), (lambda m: m + " ", 0, 1), (lambda m: m[:-1] + "\n", 0, 1),
           (lambda m: m[:-1] + "\x00", 0, 1)]


def _pick(lst, rng, wire: bool, ascii_only: bool):
    ok = [m for m in lst if (m[1] or not wire) and (m[2] or not ascii_only)]
    return rng.choice(ok)[0]


class World:
    def __init__(self, rng) -> None:
        self.rng = rng
        self.secret = {"k1": rng.randbytes(32), "k2": rng.randbytes(32)}
        self.k3 = rng.randbytes(32)
        self.secrets = {KID[k]: (self.secret[k], LABEL) for k in ("k1", "k2")}

    def nonce(self) -> str:
        return b64(self.rng.randbytes(16))

    def clean_token(self, kidc: str, now: int, nonce: str, *, secret: bytes | None = None, age: int = 0) -> str:
        kid = KID[kidc]
        ts = str(now - age)
        return ".".join(["v1", kid, ts, nonce, b64(spec_mac(secret or self.secret[kidc], kid, ts, nonce, ORIGIN))])

    def build(self, case: dict, vi: int, wire: bool, now: int, skew: int, nonce: str, seed: int,
              margin: int = 0) -> tuple[str, str]:
        """abstract case -> (header value, claimed kid string).  Deterministic in (case, vi, wire, seed)."""
        import random
        rng = random.Random(f"{seed}|{vi}|{int(wire)}|{sorted(case.items())}")
        if case["hdr"] == "empty":
            return "", ""
        carriers = [f for f in ("kidcs", "tscs", "noncs", "maccs") if not case[f]]
        can_carry = bool(carriers) or case["nf"] == "6" or case["multi"]
        boundary512 = (not case["long"]) and can_carry and vi % 4 == 1
        ascii_only = case["long"] or boundary512
        # ---- semantic part
        kidc = case["kid"]
        kid = KID[kidc] if kidc != "unk" else (UNKNOWN_KIDS[0] if vi == 0 else rng.choice(UNKNOWN_KIDS))
        age = AGE[case["age"]](skew)
        if margin:                                   # wall-clock leg: stay a minute away from the window edge
            age = {"zero": 0, "gtP": skew + margin, "gtN": -(skew + margin)}[case["age"]]
        ts_int = now - age
        if vi % 3 == 2 and case["age"] == "gtP":
            ts_int = rng.choice([x for x in (0, 1, now - 10 ** 7, now - skew - 2) if x >= 0])
        if vi % 3 == 2 and case["age"] == "gtN":
            ts_int = rng.choice([10 ** 19, 10 ** 20 - 1, now + 10 ** 7, now + skew + 2])
        ts = str(ts_int)
        if vi % 5 == 3 and len(ts) < 20:
            ts = ts.zfill(rng.randint(len(ts) + 1, 20))        # leading zeros are inside [0-9]{1,20}; MAC covers them
        mk = case["mac"]
        secret = self.secret.get(kidc, self.k3)
        origin, frame, m_kid, m_ts, m_nonce = ORIGIN, -1, kid, ts, nonce
        if mk == "key":
            others = [s for k, s in self.secret.items() if k != kidc] + [self.k3, bytes(32), secret[::-1]]
            secret = others[0] if vi == 0 else rng.choice(others)
            if secret == self.secret.get(kidc):
                secret = self.k3
        elif mk == "origin":
            origin = OTHER_ORIGINS[0] if vi == 0 else rng.choice(OTHER_ORIGINS)
        elif mk == "frame":
            frame = vi if vi < 8 else rng.randrange(8)
        tamper = rng.randrange(5) if mk == "tamper" else -1
        if vi < 5 and mk == "tamper":
            tamper = vi
        if tamper == 1:
            m_ts = str(ts_int + rng.choice([-1, 1, 7])) if ts_int > 0 else "1"
        elif tamper == 2:
            m_nonce = self.nonce()
        elif tamper == 3:
            m_kid = KID["k2"] if kid == KID["k1"] else KID["k1"]
        mac = b64(spec_mac(secret, m_kid, m_ts, m_nonce, origin, frame))
        if tamper == 0:
            p = rng.randrange(42)
            mac = mac[:p] + rng.choice([a for a in ALPHA if a != mac[p]]) + mac[p + 1:]
        elif tamper == 4:
            i = ALPHA.index(mac[-1])
            mac = mac[:-1] + ALPHA[(i + 4 * rng.randint(1, 15)) % 64]   # other canonical last char: different byte
        if mk == "noncanon":
            i = ALPHA.index(mac[-1])                                     # canonical: low two bits are zero
            mac = mac[:-1] + ALPHA[i + rng.randint(1, 3)]
        ver = "v1"
        # ---- field-level charset faults
        if not case["ver"]:
            ver = _pick(VER_BAD, rng, wire, ascii_only)
        if not case["kidcs"]:
            kid = _pick(KID_BAD, rng, wire, ascii_only)(kid)
        if not case["tscs"]:
            ts = _pick(TS_BAD, rng, wire, ascii_only)(ts)
        n_f = nonce
        if not case["noncs"]:
            n_f = _pick(NONCE_BAD, rng, wire, ascii_only)(nonce)
        if not case["maccs"]:
            mac = _pick(MAC_BAD, rng, wire, ascii_only)(mac)
        nf_kind = rng.randrange(9 if case["nf"] == "4" else 7)
        multi_kind = rng.randrange(6)
        carrier = carriers[rng.randrange(len(carriers))] if carriers else ("nf6" if case["nf"] == "6" else "multi")
        cidx = {"kidcs": 1, "tscs": 2, "noncs": 3, "maccs": 4}.get(carrier, -1)
        if case["nf"] == "4" and nf_kind == cidx:
            nf_kind = 5 + rng.randrange(4)                 # never drop the field that has to carry the length
        dot_at = rng.randrange(4)
        fresh_second = self.clean_token("k1", now, self.nonce())

        def core(pad: int) -> str:
            f = [ver, kid, ts, n_f, mac]
            if pad and cidx > 0:
                ch = "7" if carrier == "tscs" else "a"
                cut = len(f[cidx])
                while cut and f[cidx][cut - 1] in " \n\x00":     # padding goes before a trailing blank / control char
                    cut -= 1
                f[cidx] = f[cidx][:cut] + ch * pad + f[cidx][cut:]
            if case["nf"] == "4":
                if nf_kind < 5:
                    f = f[:nf_kind] + f[nf_kind + 1:]               # a field dropped
                else:
                    j = nf_kind - 5                                  # two fields merged (dot j removed)
                    f = f[:j] + [f[j] + f[j + 1]] + f[j + 2:]
                return ".".join(f)
            if case["nf"] == "6":
                tok = ".".join(f)
                if pad and carrier == "nf6":
                    return tok + "." + "x" * pad                    # an extra (sixth) field carries the length
                if nf_kind == 0:
                    return tok + "."
                if nf_kind == 1:
                    return "." + tok
                if nf_kind == 2:
                    f2 = f[:]
                    f2[dot_at] = f2[dot_at] + "."
                    return ".".join(f2)
                if nf_kind == 3:
                    return tok + ".x"
                if nf_kind == 4:
                    k2 = f[1] if len(f[1]) >= 2 else "ab"
                    return ".".join([f[0], k2[:len(k2) // 2] + "." + k2[len(k2) // 2:], *f[2:]])   # dot inside kid
                if nf_kind == 5:
                    return ".".join([f[0], f[1], f[2] + ".0", *f[3:]])                                # ts like a float
                return ".".join([f[0], "v1", *f[1:]])
            return ".".join(f)

        def assemble(pad: int) -> str:
            tok = core(pad)
            if case["multi"]:
                second = [core(0), fresh_second, "garbage", "", "v1.a.1.b.c", core(0)][multi_kind]
                sep = ", " if multi_kind != 4 else ","
                tok = (second + sep + tok) if multi_kind == 5 else (tok + sep + second)
                if multi_kind == 3:
                    tok = tok.rstrip()
                if pad and carrier == "multi":
                    tok = (tok + ", " + "x" * (pad - 2)) if pad >= 3 else tok + "," * pad
            return tok

        tok = assemble(0)
        if case["long"] or boundary512:
            # padding must keep the carrying field outside its charset/length: pad by >= 100 characters
            target = 512 if boundary512 else (513 if vi % 2 == 0 else rng.randint(514, 4000))
            if target - len(tok) < 100:
                target = None if boundary512 else len(tok) + 100 + rng.randint(0, 50)
            if target is not None:
                pad = target - len(tok)
                t2 = assemble(pad)
                if len(t2) != target:
                    t2 = assemble(pad + target - len(t2))
                tok = t2
                if len(tok) != target or (len(tok) > 512) != case["long"]:
                    raise AssertionError(("harness: length concretisation failed", len(tok), target, case))
        return tok, kid


def _run_verify(verify_proof, ProofError, token, **kw) -> str:
    try:
        r = verify_proof(token, **kw)
        return "ok" if (isinstance(r, dict) and r.get("verified") == "true") else f"other:return:{r!r}"[:60]
    except ProofError as e:
        return e.reason if e.reason in REASONS else f"other:reason:{e.reason}"[:60]
    except BaseException as e:  # noqa: BLE001
        return f"other:{type(e).__name__}"


def run(ctx: Ctx) -> None:
    warnings.filterwarnings("ignore")
    logging.getLogger("vgi_rpc").setLevel(logging.CRITICAL)
    from vgi_rpc.http import require_all
    from vgi_rpc.http._proof import ProofError, ProxyProofConfig, mint_proof, proxy_proof_gate, verify_proof
    from vgi_rpc.http._replay import NonceCache
    from vgi_rpc.http._testing import make_sync_client
    from vgi_rpc.rpc import RpcServer

    quick = ctx.quick
    full = {"Ages": Raw('{"gtP","eqP","ltP","zero","ltN","eqN","gtN"}'),
            "MacKinds": Raw('{"ok","key","origin","tamper","frame","noncanon"}'),
            "NonceKinds": Raw('{"fresh","seen_in","seen_edge","seen_out","seen_rej","seen_xkid"}'), "Dev_GateEmptyIsAbsent": False}
    if quick:
        consts = {**full, "ShKids": Raw('{"k1","unk"}'), "ShAges": Raw('{"zero","gtP","gtN"}'),
                  "ShMacs": Raw('{"ok","key"}'), "ShNonces": Raw('{"fresh","seen_in","seen_xkid"}')}
    else:
        consts = {**full, "ShKids": Raw('{"k1","k2","unk"}'), "ShAges": Raw('{"gtP","eqP","zero","eqN","gtN"}'),
                  "ShMacs": Raw('{"ok","key","tamper","noncanon"}'), "ShNonces": Raw('{"fresh","seen_in","seen_rej","seen_xkid"}')}
    invs = ["Total", "Deterministic", "AcceptOnlyClean", "CleanAccepted", "FirstStepWins", "CheapFirst", "WindowTwoSided",
            "GateFollowsTable"]
    cases = enumerate_cases(ctx, "data", "ProofTable", constants=consts, invariants=invs)
    # faithful variant (named deviation on): TLC itself must refute GateFollowsTable; the case it returns (hdr = "empty")
    # is in Cases and is executed below like every other case
    cex = faithful_counterexample(ctx, "data", "ProofTable", constants={**consts, "Dev_GateEmptyIsAbsent": True},
                                  invariant="GateFollowsTable", name="ProofTable:faithful(Dev_GateEmptyIsAbsent)")
    ctx.extra["faithful_model_counterexample"] = cex or "(none: GateFollowsTable held in the faithful model)"
    ctx.exhaustive = True
    ctx.rule = ("case = one combination of field-level faults x kid relation x clock relation x MAC relation x nonce "
                "history, enumerated by TLC from ProofTable!Cases with the reason of the first failing step; "
                "non-trivial = distinct (leg, concrete header value, clock, skew, history) executed on the real code")
    ctx.assume("the gate's NonceCache runs on the real monotonic clock: 'seen_edge'/'seen_out' histories are exercised "
               "through verify_proof with an injected cache clock only (gate/HTTP legs run them with an empty history, "
               "for which the table's admissible set is a subset)",
               "'longer than 512 bytes' is only realisable together with an over-long field, an extra field or several "
               "instances (ProofTable!Realisable)",
               "mutations containing CR/LF/NUL/non-latin-1 or leading/trailing whitespace of the whole value are used on "
               "the verify_proof leg only (an HTTP server would not deliver them unchanged)",
               "HTTP 401 leg: every structurally clean case and a fixed stride of the others")

    w = World(ctx.rng)
    seed = ctx.seed
    # ---- real objects: one require-mode gate (+ WSGI app) per skew
    wall = {"now": 0}
    gates, clients, ref401 = {}, {}, {}
    server = RpcServer(C22Svc, C22Impl())
    u_schema = server.methods["u"].params_schema
    body = world.raw_request(b"u", u_schema, {"x": 1})
    hdrs0 = {"Content-Type": world.ARROW_CT}
    last_reason: list = [None]

    class _Cap(logging.Handler):
        def emit(self, record: logging.LogRecord) -> None:
            r = getattr(record, "proof_reason", None)
            if r is not None:
                last_reason[0] = r

    plog = logging.getLogger("vgi_rpc.http._proof")
    cap = _Cap(level=logging.DEBUG)
    plog.addHandler(cap)
    plog.setLevel(logging.DEBUG)
    plog.propagate = False

    def _norm401(r):
        return (r.status_code, bytes(r.content), tuple(sorted((k.lower(), v) for k, v in r.headers.items()
                                                             if k.lower() not in ("x-request-id", "date"))))

    from vgi_rpc.http import bearer_authenticate
    from vgi_rpc.rpc import AuthContext

    def _bearer(token: str) -> AuthContext:
        if token != "good-bearer-token":
            raise ValueError("unknown bearer token")
        return AuthContext(domain="bearer", authenticated=True, principal="alice", claims={})

    clients2, ref401_2 = {}, {}
    for s in SKEWS:
        cfg = ProxyProofConfig(mode="require", origin_id=ORIGIN, secrets=w.secrets, skew_seconds=s)
        gates[(s, "require")] = proxy_proof_gate(cfg, now=lambda: wall["now"])
        gates[(s, "allow")] = proxy_proof_gate(ProxyProofConfig(mode="allow", origin_id=ORIGIN, secrets=w.secrets,
                                                                skew_seconds=s), now=lambda: wall["now"])
        if s == 30:
            gates[(s, "wall")] = proxy_proof_gate(cfg)                  # default clock: now=None
        g2 = proxy_proof_gate(cfg, now=lambda: wall["now"])
        clients2[s] = make_sync_client(server, authenticate=require_all(g2, bearer_authenticate(validate=_bearer)),
                                       proxy_proof_required=True, token_key=b"k" * 32)
        ref401_2[s] = _norm401(clients2[s].post("/u", content=body, headers=hdrs0))
        hgate = proxy_proof_gate(cfg, now=lambda: wall["now"])
        clients[s] = make_sync_client(server, authenticate=require_all(hgate), proxy_proof_required=True,
                                      token_key=b"k" * 32)
        r = clients[s].post("/u", content=body, headers=hdrs0)
        ref401[s] = _norm401(r)
        if r.status_code != 401:
            ctx.violation("H_Reject401", {"leg": "http", "hdr": "absent", "got": str(r.status_code)}, {})
    req = ft.create_req()

    def call_http2(s: int, token: str | None, inner: str) -> dict:
        h = dict(hdrs0)
        if token is not None:
            h["VGI-Proxy-Proof"] = token
        if inner != "absent":
            h["Authorization"] = "Bearer good-bearer-token" if inner == "ok" else "Bearer evil-bearer-token"
        try:
            r = clients2[s].post("/u", content=body, headers=h)
        except BaseException:  # noqa: BLE001
            return {"done": True, "inner": inner, "status": 599, "same": False}
        return {"done": True, "inner": inner, "status": r.status_code, "same": _norm401(r) == ref401_2[s]}

    def call_gate(s: int, token: str | None, mode: str = "require") -> str:
        req.env.pop("HTTP_VGI_PROXY_PROOF", None)
        if token is not None:
            req.env["HTTP_VGI_PROXY_PROOF"] = token
        try:
            r = gates[(s, mode)](req)
            if mode == "allow" and r.get("verified") == "false":
                return r.get("reason") if r.get("reason") in REASONS else f"other:reason:{r.get('reason')}"[:60]
            return "ok" if r.get("verified") == "true" else f"other:return:{dict(r)!r}"[:60]
        except ProofError as e:
            return e.reason if e.reason in REASONS else f"other:reason:{e.reason}"[:60]
        except BaseException as e:  # noqa: BLE001
            return f"other:{type(e).__name__}"

    def call_http(s: int, token: str | None, kid: str) -> dict:
        h = dict(hdrs0)
        if token is not None:
            h["VGI-Proxy-Proof"] = token
        last_reason[0] = None
        try:
            r = clients[s].post("/u", content=body, headers=h)
        except BaseException as e:  # noqa: BLE001
            return {"done": True, "out": f"other:{type(e).__name__}", "status": 599, "same": False, "echo": False}
        n = _norm401(r)
        text = r.content.decode("latin-1") + "\n" + "\n".join(f"{k}: {v}" for k, v in r.headers.items())
        echo = (len(kid) >= 4 and kid in text) or any(x in text for x in REASONS)
        out = "ok" if r.status_code != 401 and last_reason[0] is None else (last_reason[0] or "unknown")
        return {"done": True, "out": out, "status": r.status_code, "same": n == ref401[s], "echo": bool(echo)}

    NOH = {"done": False, "out": "na", "status": 0, "same": True, "echo": False}
    NOH2 = {"done": False, "inner": "absent", "status": 0, "same": True}
    BASE = {"v": "na", "g": "na", "a": "na", "w": "na", "h": NOH, "h2": NOH2}
    records: list[dict] = []
    clean_case = {"hdr": "present", "multi": False, "long": False, "nf": "5", "ver": True, "kidcs": True, "tscs": True,
                  "noncs": True, "maccs": True, "kid": "k1", "age": "zero", "mac": "ok", "nonce": "fresh"}
    mint_checked = 0

    def pre_history(kind: str, kidc: str, s: int, now0: int, nonce: str, leg: str, runner, clock_ctl: bool) -> int:
        """Establish the nonce history through the same entry point as the main call; every pre-call is itself an
        observation of its own (clean / rejected) case.  runner(token) -> the observation fields of that entry point.
        Returns the number of seconds both clocks advance before the main call (only where the harness owns them)."""
        pk = kidc if kidc in ("k1", "k2") else "k1"
        if kind in ("seen_in", "seen_edge", "seen_out"):
            if not clock_ctl and kind != "seen_in":
                return 0                               # needs an advanced cache clock: left with an empty history
            tok, pc = w.clean_token(pk, now0, nonce), {**clean_case, "kid": pk}
            adv = {"seen_in": s - 1, "seen_edge": s, "seen_out": s + 1}[kind] if clock_ctl else 0
        elif kind == "seen_xkid":
            ok = "k2" if pk == "k1" else "k1"          # accepted under the other configured kid
            tok, pc, adv = w.clean_token(ok, now0, nonce), {**clean_case, "kid": ok}, 0
        elif kind == "seen_rej":
            tok, pc, adv = w.clean_token(pk, now0, nonce, secret=w.k3), {**clean_case, "kid": pk, "mac": "key"}, 0
        else:
            return 0
        records.append({"case": pc, "obs": {**BASE, **runner(tok)}, "_tok": tok, "_leg": leg + ":pre", "_now": now0, "_skew": s})
        ctx.case([leg, "pre", kind, tok, now0, s])
        return adv

    n_http = n_http2 = n_wall = 0
    http_stride = 23 if quick else 11
    import time as _time
    for ci, cj in enumerate(cases):
        case, exp = cj["case"], cj["exp"]
        structural_clean = exp["step"] == 0 or exp["step"] >= 5
        present = case["hdr"] == "present"
        nvar = (4 if quick else 24) if structural_clean else (1 if quick else (2 if ci % 4 == 0 else 1))
        for vi in range(nvar):
            s = SKEWS[(vi + ci) % len(SKEWS)] if vi else 30
            now0 = 1_700_000_000 if vi == 0 else ctx.rng.choice([1_700_000_000, 1_893_456_000, 100_000, 4_102_444_800])
            do_http = (structural_clean and vi < (2 if quick else 6)) or (vi == 0 and ci % http_stride == 0) or not present
            obs = dict(BASE)
            toks: dict = {}
            # ----------------------------------------------------------- verify_proof leg (harness owns both clocks)
            if case["hdr"] != "absent":
                nonce = w.nonce()
                clk = [5000.0 + vi]
                cache = NonceCache(ttl_seconds=s, capacity=64, clock=lambda: clk[0])
                adv = pre_history(case["nonce"], case["kid"], s, now0, nonce, "v",
                                  lambda t: {"v": _run_verify(verify_proof, ProofError, t, secrets=w.secrets, origin_id=ORIGIN,
                                                              skew_seconds=s, nonce_cache=cache, now=now0)}, True)
                clk[0] += adv
                now = now0 + adv
                toks["verify"], kid_s = w.build(case, vi, False, now, s, nonce, seed)
                obs["v"] = _run_verify(verify_proof, ProofError, toks["verify"], secrets=w.secrets, origin_id=ORIGIN,
                                       skew_seconds=s, nonce_cache=cache, now=now)
                ctx.case(["v", toks["verify"], now, s, case["nonce"]])
                if structural_clean and case["mac"] == "ok" and vi == 1 and case["kid"] != "unk" and mint_checked < 50:
                    # the real minting side produces the same bytes as the harness's section-4 implementation
                    mint_checked += 1
                    mine = w.clean_token(case["kid"], now, nonce)
                    theirs = mint_proof(w.secret[case["kid"]], KID[case["kid"]], ORIGIN, now=now, nonce=nonce)
                    ctx.extra["mint_proof_equals_harness_section4"] = ctx.extra.get("mint_proof_equals_harness_section4", True) and (mine == theirs)
            # ----------------------------------------------------------- gate legs on a real falcon.Request: require, allow
            for leg, mode in (("g", "require"), ("a", "allow")):
                nonce = w.nonce()
                wall["now"] = now0
                if present:
                    pre_history(case["nonce"], case["kid"], s, now0, nonce, leg,
                                lambda t, leg=leg, mode=mode: {leg: call_gate(s, t, mode)}, False)
                toks[leg], kid_s = (None, "") if case["hdr"] == "absent" else w.build(case, vi, True, now0, s, nonce, seed)
                obs[leg] = call_gate(s, toks[leg], mode)
                ctx.case([leg, toks[leg], now0, s, case["nonce"]])
            # ----------------------------------------------------------- default clocks (now=None): wall clock, monotonic cache
            if present and case["age"] in ("zero", "gtP", "gtN") and s >= 30 and (structural_clean or ci % http_stride == 1):
                nonce = w.nonce()
                wcache = NonceCache(ttl_seconds=s, capacity=64)
                use_gate = (ci + vi) % 2 == 0

                def run_wall(t):
                    if use_gate:
                        return {"w": call_gate(s, t, "wall")}
                    return {"w": _run_verify(verify_proof, ProofError, t, secrets=w.secrets, origin_id=ORIGIN, skew_seconds=s,
                                             nonce_cache=wcache)}
                if s == 30 or not use_gate:              # the wall-clock gate exists for the default skew only
                    pre_history(case["nonce"], case["kid"], s, int(_time.time()), nonce, "w", run_wall, False)
                    toks["wall"], _ = w.build(case, vi, True, int(_time.time()), s, nonce, seed, margin=60)
                    obs["w"] = run_wall(toks["wall"])["w"]
                    n_wall += 1
                    ctx.case(["w", use_gate, toks["wall"], s, case["nonce"]])
            # ----------------------------------------------------------- full HTTP legs (401 uniformity)
            if do_http:
                nonce = w.nonce()
                wall["now"] = now0
                if present:
                    pre_history(case["nonce"], case["kid"], s, now0, nonce, "h",
                                lambda t: {"h": call_http(s, t, KID["k1"])}, False)
                toks["http"], kid_s = (None, "") if case["hdr"] == "absent" else w.build(case, vi, True, now0, s, nonce, seed)
                obs["h"] = call_http(s, toks["http"], kid_s)
                n_http += 1
                ctx.case(["h", toks["http"], now0, s, case["nonce"]])
                # the deployment shape: a bearer authenticator behind the gate
                inner = ("ok", "bad", "absent")[(ci + vi) % 3]
                nonce = w.nonce()
                if present:
                    pre_history(case["nonce"], case["kid"], s, now0, nonce, "h2",
                                lambda t: {"h2": call_http2(s, t, "ok")}, False)
                toks["http2"], _ = (None, "") if case["hdr"] == "absent" else w.build(case, vi, True, now0, s, nonce, seed)
                obs["h2"] = call_http2(s, toks["http2"], inner)
                n_http2 += 1
                ctx.case(["h2", inner, toks["http2"], now0, s, case["nonce"]])
            records.append({"case": case, "obs": obs, "_tok": toks, "_leg": "main", "_now": now0, "_skew": s, "_adm": exp["adm"]})
    plog.removeHandler(cap)
    ctx.extra["http_401_leg_executions"] = n_http
    ctx.extra["http_401_with_inner_authenticator_executions"] = n_http2
    ctx.extra["wall_clock_leg_executions"] = n_wall
    ctx.extra["expected_outcome_histogram"] = {}
    for cj in cases:
        k = "|".join(sorted(cj["exp"]["adm"]))
        ctx.extra["expected_outcome_histogram"][k] = ctx.extra["expected_outcome_histogram"].get(k, 0) + 1
    noncanon_ok = sum(1 for r in records if r["case"]["mac"] == "noncanon" and r["obs"]["v"] == "ok")
    ctx.extra["note_noncanonical_mac_accepted"] = (
        f"{noncanon_ok} executions accepted a MAC whose last base64url character carries non-zero trailing bits "
        "(4 distinct header texts verify per proof); admissible under the set-valued row, recorded not asserted")
    ctx.extra["note_future_dated"] = ("a proof dated now+skew stays MAC-valid for 2*skew seconds while its nonce is "
                                      "remembered for skew seconds (DESIGN 7a) -- noted, not asserted")
    for r in records[:: max(1, len(records) // 5)][:5]:
        ctx.sample({"abstract_case": r["case"], "concrete": {"tokens": r["_tok"], "now": r["_now"], "skew": r["_skew"]},
                    "observed": r["obs"]})
    # Admissible/Conforms do not depend on the case-space constants; the judge runs get the smallest admissible ones
    jconsts = {"Ages": Raw('{"zero","gtP","gtN"}'), "MacKinds": Raw('{"ok","key"}'), "NonceKinds": Raw('{"fresh","seen_in"}'),
               "ShKids": Raw('{"k1","unk"}'), "ShAges": Raw('{"zero","gtP","gtN"}'), "ShMacs": Raw('{"ok","key"}'),
               "ShNonces": Raw('{"fresh","seen_in"}'), "Dev_GateEmptyIsAbsent": False}
    bad = judge_dedup(ctx, "data", "ProofTable", records, constants=jconsts, chunk=40000)
    for idx, clauses in bad:
        r = records[idx]
        c, o = r["case"], r["obs"]
        for cl in clauses:
            leg = "http2" if cl.startswith("H2_") else {"V": "verify", "G": "gate", "A": "allow", "W": "wall", "H": "http"}[cl[0]]
            got = {"verify": o["v"], "gate": o["g"], "allow": o["a"], "wall": o["w"], "http": f"{o['h']['out']}/{o['h']['status']}",
                   "http2": f"{o['h2']['inner']}:{o['h2']['status']}"}[leg]
            faults = [k for k in ("multi", "long") if c[k]] + [k for k in ("ver", "kidcs", "tscs", "noncs", "maccs") if not c[k]] \
                + ([f"nf{c['nf']}"] if c["nf"] != "5" else [])
            tok = r["_tok"] if isinstance(r["_tok"], str) else r["_tok"].get({"gate": "g", "allow": "a"}.get(leg, leg))
            ctx.violation(cl, {"leg": leg, "hdr": c["hdr"], "structural_faults": "+".join(faults) or "none",
                               "kid": c["kid"], "age": c["age"], "mac": c["mac"], "nonce": c["nonce"], "got": got.split("/")[0]},
                          {"case": c, "observed": o, "token": tok, "now": r["_now"], "skew": r["_skew"],
                           "admissible": r.get("_adm"), "history_step": r["_leg"]})
