"""C42 -- the serve-start hook runs exactly once per binding.

Spec: spec/conc/ServeStart.tla (threads of first HTTP requests + serve() calls at lock granularity; hook modes
      ok / raises once / raises on the second call (failing re-bind) / raises always; bindings = (kind,
      capabilities): http, pipe, unix, pipe+shm; wrong-design variants as vacuity guard), spec/conc/ServeStartTrace.tla.

Pipeline
  1. TLC model-checks ServeStart exhaustively (2-3 request threads, up to 2 requests each, 0-3 serve() threads on
     PipeTransport / UnixTransport / ShmPipeTransport, all hook modes): the design satisfies the four clauses, every wrong variant falsifies some.
  2. Level A (spec -> code): every path of the dumped state graph is forced, step by step, onto a real RpcServer
     behind the real HTTP middleware stack (falcon app from make_wsgi_app) and real serve() calls on
     PipeTransport / UnixTransport / ShmPipeTransport; every abstract HTTP request is concretised as a unary call,
     a stream init or a stream continuation minted by another worker (cold worker); the transport lock is a scheduler shim lock (vgi_rpc.rpc._server.threading is
     patched while the server is constructed), the implementation's on_serve_start parks once inside the hook.
     After every step the park label and server.transport_kind are compared with the spec state.
  3. Level B (code -> spec): every real schedule of the same scenarios (stateless DFS over the scheduler's
     choices), independent of the model's idea of where the lock is.
  4. TLC judges every recorded trace: conformance to ServeStart (reject = drift) and the clauses on the recorded
     events (false = VIOLATION).
"""
import dataclasses
import io
import logging
import re
import socket
import sys
import time
import warnings
from typing import Protocol

from vf import world
from vf.core import Ctx
from vf.graph import dump_graph
from vf.sched import Blocked, Scheduler, SchedTimeout
from vf.tlc import MachineryError, ModelValues, Raw, render_cfg, require_ok, run_tlc, sany

from drivers._c23c42_util import explore, judge_traces, parallel_tlc

META = {
    "engine": "conc",
    "text": "ServeStart.tla is a TLA+ state machine of 2-3 HTTP first-request threads (transport_kind-is-None test "
            "outside the lock, _notify_transport under the lock: recheck, hook, commit) and 0-3 serve() threads "
            "rebinding to pipe / unix / pipe+shm (bindings are (kind, capabilities) pairs), with hook outcome ok / "
            "raises once / raises on the second call / raises always, model-checked exhaustively "
            "by TLC with the clause invariants OncePerBinding / HookBeforeDispatch / RaisingHookUnrecorded / "
            "NextRequestRerunsHook (four wrong-design variants must falsify them).  Every path of the dumped state "
            "graph is forced onto a real RpcServer behind the real falcon middleware stack and real serve() calls "
            "by a deterministic scheduler (shim transport lock, hook body parks), compared with the spec state after "
            "each step; every real schedule of the scenarios is explored as well; all recorded traces are judged by "
            "TLC (conformance + clauses).",
    "note": "Trusted: vf/sched.py; the harness implementation (on_serve_start / method bodies emit events and park "
            "once inside the hook); server.transport_kind read after every step as the observation of the binding. "
            "HTTP requests are concretised as unary / stream init / stream continuation on a cold worker; hook "
            "failures as RuntimeError / RpcError / OSError.  Not covered: TCP kind, pre-fork processes (one process "
            "only), implementations without an on_serve_start hook.",
}

CLAUSES = ["OncePerBinding", "HookBeforeDispatch", "RaisingHookUnrecorded", "NextRequestRerunsHook"]
MODEL_INVS = [f"Inv_{c}" for c in CLAUSES] + ["TypeOK", "AlwaysRaisingNeverBinds", "Vacuity"]
WRONG = ["commit-first", "no-recheck", "no-lock", "sticky-failure"]


def _S(xs) -> Raw:
    return Raw("{" + ", ".join(f'"{x}"' for x in xs) + "}")


def _consts(reqs, pipes, unixes, maxreqs, modes, variants=("design",), sym=False, shms=()) -> dict:
    return {"Reqs": ModelValues(*reqs) if sym else _S(reqs), "PipeSrvs": _S(pipes), "UnixSrvs": _S(unixes),
            "ShmSrvs": _S(shms), "MaxReqs": set(maxreqs), "HookModes": _S(modes), "Variants": _S(variants)}


# ---------------------------------------------------------------------------------------------- real world
import pyarrow as pa  # noqa: E402
from vgi_rpc.rpc import (AnnotatedBatch, CallContext, ExchangeState, OutputCollector, RpcError,  # noqa: E402
                         Stream)

INP = pa.schema([pa.field("a", pa.int64())])
OUT = pa.schema([pa.field("v", pa.int64())])
_CUR: list = [None]          # the World whose threads are running (stream state objects are rebuilt from tokens)


@dataclasses.dataclass
class XState(ExchangeState):
    n: int = 0

    def exchange(self, input: AnnotatedBatch, out: OutputCollector, ctx: CallContext) -> None:
        if _CUR[0] is not None:
            _CUR[0].ev(e="Dispatch", what="process")
        self.n += 1
        out.emit_pydict({"v": [self.n]})


class Svc(Protocol):
    def u(self, x: int) -> int: ...
    def x(self) -> Stream[ExchangeState]: ...


class HookFailure(RuntimeError):
    pass


class HookFailureRpc(RpcError):
    def __init__(self, msg: str) -> None:
        super().__init__("HookFailureRpc", msg, "")


class HookFailureOS(OSError):
    pass


EXC = {"runtime": HookFailure, "rpc": HookFailureRpc, "os": HookFailureOS}
HOOK_FAILURES = (HookFailure, HookFailureRpc, HookFailureOS)
TOKEN_KEY = b"c42-shared-token-key-0123456789ab"[:32]
ROUTES = ("u", "init", "exchange")
_DONOR: dict = {}
_SHM: list = []


def _plain_impl():
    class DonorImpl:
        def u(self, x: int) -> int:
            return x + 1

        def x(self) -> Stream[XState]:
            return Stream(output_schema=OUT, state=XState(), input_schema=INP)
    return DonorImpl()


def donor_bodies() -> dict:
    """Raw bodies + headers of POST /x/init and POST /x/exchange recorded from the real client against ANOTHER
    worker sharing the token key: the continuation then arrives as the very first request of a cold worker."""
    if _DONOR:
        return _DONOR
    from vgi_rpc.http import http_connect
    from vgi_rpc.http._testing import make_sync_client
    from vgi_rpc.rpc import RpcServer

    class Rec:
        def __init__(self, c) -> None:
            self._c, self.posts = c, []

        def post(self, url, *, content, headers):
            r = self._c.post(url, content=content, headers=headers)
            self.posts.append((url, bytes(content), dict(headers)))
            return r

        def __getattr__(self, k):
            return getattr(self._c, k)

    rec = Rec(make_sync_client(RpcServer(Svc, _plain_impl()), token_key=TOKEN_KEY, enable_landing_page=False,
                               enable_describe_page=False, enable_not_found_page=False))
    with http_connect(Svc, client=rec) as proxy:
        st = proxy.x()
        st.exchange(AnnotatedBatch.from_pydict({"a": [1]}, schema=INP))
        st.close()
    for url, body, hdrs in rec.posts:
        if url.endswith("/init"):
            _DONOR["init"] = (url, body, hdrs)
        elif url.endswith("/exchange") and "exchange" not in _DONOR:
            _DONOR["exchange"] = (url, body, hdrs)
    if set(_DONOR) != {"init", "exchange"}:
        raise MachineryError(f"could not record stream requests from the donor worker: {sorted(_DONOR)}")
    return _DONOR


def shm_segment():
    if not _SHM:
        import atexit

        from vgi_rpc.shm import ShmSegment

        seg = ShmSegment.create(1024 * 1024)
        _SHM.append(seg)

        def _cleanup() -> None:
            try:
                seg.unlink()
            except Exception:  # noqa: BLE001
                pass
            try:
                seg.close()
            except Exception:  # noqa: BLE001
                pass
        atexit.register(_cleanup)
    return _SHM[0]


class World:
    """A real RpcServer (shim transport lock) + the real HTTP app + logical threads issuing requests / serve()."""

    def __init__(self, mode: str, max_req: int, reqs: list[str], pipes: list[str], unixes: list[str],
                 shms: list[str] | tuple = (), routes: dict | None = None, exc: str = "runtime") -> None:
        import vgi_rpc.rpc._server as srvmod
        from vgi_rpc.http._testing import make_sync_client
        from vgi_rpc.rpc import RpcServer

        self.sched = sched = Scheduler(step_timeout=30.0)
        self.events: list[dict] = []
        self.mode = mode
        self.max_req = max_req
        self.reqs, self.pipes, self.unixes, self.shms = reqs, pipes, unixes, list(shms)
        self.threads = reqs + pipes + unixes + self.shms
        self.routes = routes or {}          # HTTP thread -> route of its i-th request ("u" | "init" | "exchange")
        self.exc = exc
        self.cur_bind: dict[str, str] = {}  # thread -> binding of the op it is running
        self.calls = 0
        self.executed: list[str] = []
        w = self

        class Impl:
            def on_serve_start(self, kind) -> None:
                w.calls += 1
                n = w.calls
                k = str(getattr(kind, "value", kind))
                bk = w.cur_bind.get(sched._me() or "main", k)
                w.ev(e="HookStart", k=k, bk=bk)
                sched.yield_point("hook")
                if w.mode == "always" or (w.mode == "once" and n == 1) or (w.mode == "second" and n == 2):
                    w.ev(e="HookEnd", k=k, bk=bk, ok=False)
                    raise EXC[w.exc](f"on_serve_start failure #{n}")
                w.ev(e="HookEnd", k=k, bk=bk, ok=True)

            def u(self, x: int) -> int:
                w.ev(e="Dispatch", what="u")
                return x + 1

            def x(self) -> Stream[XState]:
                w.ev(e="Dispatch", what="x-init")
                return Stream(output_schema=OUT, state=XState(), input_schema=INP)

        orig = getattr(srvmod, "threading", None)
        if orig is not None:
            srvmod.threading = sched.threading_shim()  # BEFORE constructing the server: __init__ creates the lock
        try:
            self.server = RpcServer(Svc, Impl())
        finally:
            if orig is not None:
                srvmod.threading = orig
        self.shimmed = bool(sched.locks)
        self.client = make_sync_client(self.server, token_key=TOKEN_KEY, enable_landing_page=False,
                                       enable_describe_page=False, enable_not_found_page=False)
        self.body = world.raw_request(b"u", self.server.methods["u"].params_schema, {"x": 1})
        self.donor = donor_bodies()
        _CUR[0] = self
        for t in reqs:
            sched.spawn(t, self._req_body, t)
        for t in pipes:
            sched.spawn(t, self._srv_body, t, "pipe")
        for t in unixes:
            sched.spawn(t, self._srv_body, t, "unix")
        for t in self.shms:
            sched.spawn(t, self._srv_body, t, "pipe+shm")

    # -- events
    def binding(self) -> str:
        k = self.server.transport_kind
        if k is None:
            return "none"
        caps = getattr(self.server, "transport_capabilities", frozenset()) or frozenset()
        return str(getattr(k, "value", k)) + ("+shm" if "shm" in caps else "")

    def ev(self, **k) -> None:
        k.setdefault("t", self.sched._me() or "main")
        k["b"] = self.binding()
        self.events.append(k)

    # -- thread bodies
    def _req_body(self, t: str) -> None:
        for i in range(self.max_req):
            if i:
                self.sched.yield_point("next")
            route = (self.routes.get(t) or ["u"] * self.max_req)[i]
            self.cur_bind[t] = "http"
            self.ev(e="Begin", k="http", route=route)
            n0 = len(self.events)
            try:
                if route == "u":
                    r = self.client.post("/u", content=self.body, headers={"Content-Type": world.ARROW_CT})
                else:
                    url, body, hdrs = self.donor[route]
                    r = self.client.post(url, content=body, headers=hdrs)
                status = r.status_code
            except HOOK_FAILURES:
                status = 500           # a WSGI server answers 500 when the app raises
            disp = any(e["e"] == "Dispatch" and e["t"] == t for e in self.events[n0:])
            self.ev(e="End", res="dispatched" if (status == 200 and disp) else "failed", status=status)

    def _srv_body(self, t: str, kind: str) -> None:
        from vgi_rpc.rpc._transport import PipeTransport, ShmPipeTransport, UnixTransport

        self.cur_bind[t] = kind
        self.ev(e="Begin", k=kind)
        n0 = len(self.events)
        a = b = None
        try:
            if kind == "pipe":
                out = io.BytesIO()
                tr = PipeTransport(io.BytesIO(self.body), out)
            elif kind == "pipe+shm":
                tr = ShmPipeTransport(PipeTransport(io.BytesIO(self.body), io.BytesIO()), shm_segment())
            else:
                a, b = socket.socketpair()
                a.sendall(self.body)
                a.shutdown(socket.SHUT_WR)
                tr = UnixTransport(b)
            try:
                self.server.serve(tr)
                failed = False
            except HOOK_FAILURES:
                failed = True
        finally:
            for s in (a, b):
                if s is not None:
                    try:
                        s.close()
                    except OSError:
                        pass
        disp = any(e["e"] == "Dispatch" and e["t"] == t for e in self.events[n0:])
        self.ev(e="End", res="dispatched" if (disp and not failed) else "failed", status=0)

    # -- control
    @staticmethod
    def pc_of(label: str) -> str:
        if label.startswith("acq:"):
            return "want"
        return {"hook": "hook", "next": "start", "start": "start", "EXIT": "done"}.get(label, label)

    def step(self, t: str) -> str:
        self.executed.append(t)
        lab = self.sched.step(t)
        self.events.append({"e": "Step", "t": t, "label": self.pc_of(lab), "b": self.binding()})
        return lab

    def finish(self) -> bool:
        for _ in range(10000):
            live = [t for t in self.threads if t not in self.sched.done]
            if not live:
                return True
            r = [t for t in live if self.sched.enabled(t)]
            if not r:
                return False
            self.step(r[0])
        return False

    def close(self) -> None:
        if any(t not in self.sched.done for t in self.threads):
            self.sched.release_all()
        if _CUR[0] is self:
            _CUR[0] = None

    def record(self) -> dict:
        evs = []
        for e in self.events:
            e = dict(e)
            e.pop("status", None)
            e.pop("what", None)
            evs.append(e)
        return {"mode": self.mode, "maxReq": self.max_req, "ev": evs}


def mk_cfg(mode, max_req, reqs, pipes=(), unixes=(), shms=(), routes=None, exc="runtime") -> dict:
    return {"mode": mode, "maxReq": max_req, "reqs": list(reqs), "pipes": list(pipes), "unixes": list(unixes),
            "shms": list(shms), "routes": routes or {}, "exc": exc}


def mk_world(cfg: dict) -> World:
    return World(cfg["mode"], cfg["maxReq"], cfg["reqs"], cfg["pipes"], cfg["unixes"], cfg.get("shms", ()),
                 cfg.get("routes") or {}, cfg.get("exc", "runtime"))


def n_threads(cfg: dict) -> int:
    return len(cfg["reqs"]) + len(cfg["pipes"]) + len(cfg["unixes"]) + len(cfg.get("shms", ()))


def replay_path(cfg: dict, beh: list[dict]):
    """Force one TLC path onto the real server.  Returns (record, drift | None, executed)."""
    w = mk_world(cfg)
    drift = None
    n = 0
    try:
        if not w.shimmed:
            drift = {"what": "RpcServer's transport lock is not created through the patched threading module; "
                             "schedule control unavailable"}
        for st in beh if drift is None else []:
            act, args, s = st["action"], st["args"], st["state"]
            n += 1
            t = args[0]
            if drift is not None:
                # the real code left the model earlier: keep following the schedule (best effort, no comparison)
                if t not in w.sched.done and w.sched.enabled(t):
                    w.step(t)
                continue
            lab = w.step(t)
            got_pc, got_b = w.pc_of(lab), w.binding()
            if got_pc != s["pc"][t] or got_b != s["bound"]:
                drift = {"step": n, "action": f"{act}({t})", "pc": got_pc, "expected_pc": s["pc"][t],
                         "binding": got_b, "expected_binding": s["bound"]}
        ok = w.finish()
        if not ok and drift is None:
            drift = {"what": "threads deadlocked while finishing"}
    except (SchedTimeout, Blocked) as e:
        drift = drift or {"what": f"scheduler: {type(e).__name__}: {e}", "step": n}
    finally:
        w.close()
    errs = {t: repr(e) for t, e in w.sched.errors.items()}
    if errs and drift is None:
        drift = {"what": "thread raised", "errors": errs}
    return w.record(), drift, w.executed


def run_real_schedule(scn: dict, prefix: list[str], lenient: bool = False):
    w = mk_world(scn)
    decisions = []
    stuck = None
    try:
        last = None
        k = 0
        while True:
            live = [t for t in w.threads if t not in w.sched.done]
            if not live:
                break
            en = [t for t in live if w.sched.enabled(t)]
            if not en:
                stuck = {"what": "deadlock", "parked": dict(w.sched.parked)}
                break
            opts = ([last] if last in en else []) + [t for t in en if t != last]
            preempting = set(opts[1:]) if last in en else set()
            ch = prefix[k] if k < len(prefix) else opts[0]
            if ch not in opts:
                if not lenient:
                    stuck = {"what": "schedule prefix not reproducible", "at": k, "want": ch, "options": opts}
                    break
                ch = opts[0]
            k += 1
            w.step(ch)
            last = ch
            decisions.append((opts, ch, preempting, True))
    except (SchedTimeout, Blocked) as e:
        stuck = {"what": f"scheduler: {type(e).__name__}: {e}"}
    finally:
        w.close()
    errs = {t: repr(e) for t, e in w.sched.errors.items()}
    return {"record": w.record(), "stuck": stuck, "errors": errs, "schedule": [d[1] for d in decisions],
            "shimmed": w.shimmed}, decisions


# ---------------------------------------------------------------------------------------------- driver
ALLM = ("ok", "once", "second", "always")


class _Quiet:
    """The hook failures are logged by design and falcon's test client reports them on wsgi.errors (= sys.stderr)."""

    def __enter__(self):
        self.old_disable = logging.root.manager.disable
        logging.disable(logging.CRITICAL)
        self.old_err = sys.stderr
        sys.stderr = io.StringIO()
        return self

    def __exit__(self, *a):
        sys.stderr = self.old_err
        logging.disable(self.old_disable)


def _judge_consts() -> dict:
    return _consts(["r1", "r2", "r3"], ["s1", "s3"], ["s2"], (1, 2), ALLM, shms=["m1", "m2"])


def _replay(ctx: Ctx, rec: dict, wd) -> None:
    """./check C42 --replay FILE : re-execute the recorded schedule on the real code and let TLC judge it again."""
    d, sig = rec["detail"], rec["sig"]
    cfg = d["config"]
    with _Quiet():
        out, _ = run_real_schedule(dict(cfg, pb=None), d["executed"], lenient=True)
    rec2 = out["record"]
    ctx.case(("replay", _tkey(rec2["ev"])), sample={"replayed_trace": rec2})
    verdicts, bad, inv_hits = judge_traces(ctx, wd, "ServeStartTrace", [rec2], _judge_consts(),
                                           invariants=[f"Inv_{c}" for c in CLAUSES], name="replay")
    ctx.extra["replay_same_trace"] = (rec2["ev"] == d["trace"]["ev"])
    for clause in bad.get(0, []):
        ctx.violation(clause, dict(sig, clause=clause), {"trace": rec2, "schedule": d["schedule"],
                                                         "executed": d["executed"], "config": cfg})


def _pick_routes(rng, reqs, max_req, k: int) -> dict:
    """Concretise the abstract HTTP requests of one path: every request gets a route; the first path-index
    residues force 'a stream continuation / a stream init is the very first request of the worker'."""
    forced = {0: "exchange", 1: "init", 2: "u"}.get(k % 6)
    out = {}
    for t in reqs:
        out[t] = [forced if forced else rng.choice(ROUTES) for _ in range(max_req)]
    return out


def run(ctx: Ctx) -> None:
    warnings.filterwarnings("ignore")
    quick = ctx.quick
    wd = ctx.wd.stage("conc")
    sany(wd, "ServeStartTrace")
    if getattr(ctx, "replay_record", None):
        _replay(ctx, ctx.replay_record, wd)
        return
    ctx.rule = ("case = one execution of the real RpcServer + HTTP middleware (+ serve() calls) under one forced "
                "schedule (a TLC path of ServeStart, or one real schedule of a scenario); non-trivial = distinct "
                "(hook mode, requests per thread, event trace incl. routes); clauses are judged by TLC on the "
                "recorded trace.  Where the statement says 'transport-kind binding' the repository's documented "
                "reading is used: a binding is the recorded (kind, capabilities) pair")
    ctx.assume("a 'binding' is a maximal period during which (RpcServer.transport_kind, 'shm' in "
               "transport_capabilities) has one value; it is observed by reading the public properties at every "
               "recorded event and after every scheduler step",
               "'the next request runs it again': an HTTP request that begins while nothing is bound runs the hook "
               "itself unless a hook run succeeds while it is in flight",
               "every abstract HTTP request is concretised as a unary call, a stream init or a stream continuation "
               "(token minted by another worker sharing the key, i.e. the continuation is the cold worker's first "
               "request); hook failures are raised as RuntimeError / RpcError / OSError subclasses",
               "the TCP kind and pre-fork processes are not exercised",
               "bounds: <=3 HTTP threads x <=2 requests, <=3 serve() calls (pipe, unix, pipe+shm)")
    T = {}
    t0 = time.time()
    W = 2
    R2, R3 = ["r1", "r2"], ["r1", "r2", "r3"]

    def D(reqs, pipes=(), unixes=(), shms=(), maxreqs=(1,), how="all"):
        return {"reqs": list(reqs), "pipes": list(pipes), "unixes": list(unixes), "shms": list(shms),
                "maxreqs": tuple(maxreqs), "how": how}

    if quick:
        mcs = [("mc-design-3req-3srv", _consts(R3, ["s1"], ["s2"], (1, 2), ALLM, sym=True, shms=["m1"])),
               ("mc-variants", _consts(R2, ["s1"], [], (1, 2), ALLM, ["design"] + WRONG, sym=True))]
        dumps = [D(R2, maxreqs=(1, 2)), D(R2, ["s1"]), D([], ["s1", "s3"]), D(["r1"], shms=["m1", "m2"]),
                 D(["r1"], ["s1"], shms=["m1", "m2"], how="cover"), D(R3, ["s1"], ["s2"], how="cover")]
        n_random = 30
    else:
        mcs = [("mc-design-3req-3srv", _consts(R3, ["s1", "s3"], ["s2"], (1, 2), ALLM, sym=True)),
               ("mc-design-3req-shm", _consts(R3, ["s1"], ["s2"], (1, 2), ALLM, sym=True, shms=["m1"])),
               ("mc-design-2req-shm", _consts(R2, ["s1"], [], (1, 2), ALLM, sym=True, shms=["m1", "m2"])),
               ("mc-variants", _consts(R3, ["s1"], ["s2"], (1, 2), ALLM, ["design"] + WRONG, sym=True))]
        dumps = [D(R2, maxreqs=(1, 2)), D(R2, ["s1"]), D(R3), D([], ["s1", "s3"], ["s2"]),
                 D(["r1"], shms=["m1", "m2"]), D(["r1"], ["s1"], shms=["m1", "m2"], how="cover"),
                 D(R2, ["s1"], maxreqs=(2,), how="cover"), D(R2, ["s1"], ["s2"], how="cover"),
                 D(R2, ["s1"], shms=["m1", "m2"], how="cover"),
                 D(R3, ["s1"], ["s2"], maxreqs=(1, 2), how="cover"),
                 D(R2, ["s1", "s3"], ["s2"], maxreqs=(2,), how="cover")]
        n_random = 250

    def mc_job(name, consts):
        cfg = render_cfg(constants=consts, invariants=MODEL_INVS, symmetry="Symmetry")
        return lambda: run_tlc(wd, "ServeStart", cfg, workers=W, cfg_name=f"SS_{name}.cfg", timeout=1800,
                               coverage=True)

    def dump_job(k, d):
        cfg = render_cfg(constants=_consts(d["reqs"], d["pipes"], d["unixes"], d["maxreqs"], ALLM, shms=d["shms"]),
                         invariants=[f"Inv_{c}" for c in CLAUSES])
        return lambda: dump_graph(wd, "ServeStart", cfg, workers=W, name=f"ss{k}", timeout=1800)

    results = parallel_tlc([mc_job(n, c) for n, c in mcs] + [dump_job(k, d) for k, d in enumerate(dumps)], max_par=6)
    for (nm, _), r in zip(mcs, results):
        ctx.add_tlc(nm, r)
        require_ok(r, f"ServeStart {nm}")
        if nm == "mc-variants":
            fals: dict[str, set] = {}
            for j in r.json_lines:
                fals.setdefault(j["variant"], set()).update(j["falsified"])
            missing_v = [v for v in WRONG if not fals.get(v)]
            missing_c = set(CLAUSES) - set().union(*fals.values()) if fals else set(CLAUSES)
            if missing_v or missing_c:
                raise MachineryError(f"vacuity guard: variants falsifying nothing {missing_v}; clauses never "
                                     f"falsified {sorted(missing_c)}")
            ctx.extra["clauses_falsified_by_wrong_variants"] = {v: sorted(c) for v, c in fals.items()}
    graphs = results[len(mcs):]
    T["tlc_mc_and_dumps"] = round(time.time() - t0, 1)

    records: list[dict] = []
    metas: list[dict] = []
    quiet = _Quiet().__enter__()
    try:
        # ---------------- 2. Level A
        t1 = time.time()
        stats = []
        complete_all = True
        for d, (r, g) in zip(dumps, graphs):
            for u in g.out:                      # TLC dumps an edge once per sub-action that generates it
                g.out[u] = list(dict.fromkeys(g.out[u]))
            name = "+".join(d["reqs"] + d["pipes"] + d["unixes"] + d["shms"])
            ctx.add_tlc(f"graph-{name}-maxreq{list(d['maxreqs'])}", r)
            require_ok(r, "ServeStart graph dump")
            if d["how"] == "all":
                paths, comp = g.all_paths(max_len=64, limit=50000)
                complete_all = complete_all and comp
            else:
                paths = g.edge_cover_paths(ctx.rng, key=_edge_key)
                paths += g.random_paths(ctx.rng, n_random, 64)
            nd = 0
            first = len(records)
            for k, (nodes, labs) in enumerate(paths):
                s0 = g.state(nodes[0])
                cfg = mk_cfg(s0["hookMode"], s0["maxReq"], d["reqs"], d["pipes"], d["unixes"], d["shms"],
                             routes=_pick_routes(ctx.rng, d["reqs"], s0["maxReq"], k),
                             exc=("runtime", "rpc", "os")[k % 3])
                rec, drift, executed = replay_path(cfg, g.path_to_behaviour(nodes, labs))
                ctx.case(("A", rec["mode"], rec["maxReq"], _tkey(rec["ev"])))
                if drift is not None:
                    nd += 1
                    ctx.drift.append({"level": "A", "config": cfg, "schedule": labs, **drift})
                if drift is not None and "schedule control unavailable" in str(drift.get("what", "")):
                    break                       # every further path would only repeat this
                records.append(rec)
                metas.append({"level": "A", "threads": n_threads(cfg), "schedule": labs, "executed": executed,
                              "py_drift": drift is not None, "config": cfg})
            stats.append({**{k: v for k, v in d.items() if k != "maxreqs"}, "maxreqs": list(d["maxreqs"]),
                          "graph_states": r.distinct, "graph_edges": g.n_edges, "paths_replayed": len(paths),
                          "drift": nd})
            if len(records) > first and len(ctx.samples) < 2:
                ctx.sample({"level": "A", "tlc_path": metas[-1]["schedule"], "config": metas[-1]["config"],
                            "real_trace": records[-1]})
        ctx.extra["level_A"] = stats
        ctx.extra["level_A_all_paths_complete"] = complete_all
        T["level_A_replay"] = round(time.time() - t1, 1)

        # ---------------- 3. Level B: all real schedules
        t2 = time.time()
        scns = []

        def S(mode, max_req, reqs, pipes=(), unixes=(), shms=(), routes=None, exc="runtime", pb=None):
            scns.append(dict(mk_cfg(mode, max_req, reqs, pipes, unixes, shms, routes, exc), pb=pb))

        for mode in ALLM:
            S(mode, 1, R2)
            S(mode, 1, R2, routes={"r1": ["exchange"], "r2": ["u"]}, exc="rpc")
            S(mode, 1, R2, routes={"r1": ["init"], "r2": ["exchange"]}, exc="os")
            S(mode, 2, R2, pb=2, routes={"r1": ["u", "exchange"], "r2": ["exchange", "init"]})
            S(mode, 1, R2, ["s1"], pb=2 if quick else None)
            S(mode, 1, ["r1"], shms=["m1", "m2"], pb=2)
            if not quick:
                S(mode, 1, R3, pb=2, routes={"r1": ["exchange"], "r2": ["init"], "r3": ["u"]})
                S(mode, 1, R2, ["s1"], ["s2"], pb=2)
                S(mode, 1, ["r1"], ["s1"], shms=["m1", "m2"], pb=2, exc="rpc")
                S(mode, 1, [], ["s1", "s3"], ["s2"], pb=None)
        bstats = []
        b_complete = True
        probe_w = mk_world(mk_cfg("ok", 1, ["r1"]))
        probe_w.finish()
        probe_w.close()
        if not probe_w.shimmed:
            # the hook would park while holding a real lock and block every other thread for good
            ctx.drift.append({"level": "B", "what": "RpcServer transport lock is not a scheduler shim lock; "
                              "real-schedule exploration skipped"})
            scns = []
            b_complete = False
        for scn in scns:
            outs, comp, nexec = explore(lambda p, scn=scn: run_real_schedule(scn, p),
                                        limit=150 if quick else 400, preemption_bound=scn["pb"])
            b_complete = b_complete and comp
            na = 0
            cfg = {k: v for k, v in scn.items() if k != "pb"}
            for o in outs:
                ctx.case(("B", scn["mode"], scn["maxReq"], _tkey(o["record"]["ev"])))
                anomaly = bool(o["stuck"] or o["errors"] or not o["shimmed"])
                if anomaly:
                    na += 1
                    ctx.drift.append({"level": "B", "scenario": scn, "schedule": o["schedule"], "stuck": o["stuck"],
                                      "errors": o["errors"], "shimmed": o["shimmed"]})
                records.append(o["record"])
                metas.append({"level": "B", "threads": n_threads(cfg), "schedule": o["schedule"],
                              "executed": o["schedule"], "py_drift": anomaly, "config": cfg})
            bstats.append({"scenario": scn, "real_schedules": nexec, "exhausted": comp, "anomalies": na})
            if outs and len(ctx.samples) < 4:
                ctx.sample({"level": "B", "scenario": scn, "schedule": outs[-1]["schedule"],
                            "real_trace": outs[-1]["record"]})
        ctx.extra["level_B"] = bstats
        # exhaustive: TLC explored every model completely, every path of the "all" graphs was replayed and every
        # real schedule of the Level-B scenarios (under their preemption bound) was executed; "cover" graphs are
        # sampled (edge-class cover + random walks)
        ctx.exhaustive = complete_all and b_complete
        ctx.extra["sampled_graphs"] = ["+".join(d["reqs"] + d["pipes"] + d["unixes"] + d["shms"])
                                       for d in dumps if d["how"] != "all"]
        T["level_B_dfs"] = round(time.time() - t2, 1)
    finally:
        quiet.__exit__()

    # ---------------- 4. TLC judges every recorded trace
    t3 = time.time()
    uniq: dict[tuple, int] = {}
    rep: list[int] = []
    for i, rec in enumerate(records):
        k = (rec["mode"], rec["maxReq"], _tkey(rec["ev"]))
        if k not in uniq:
            uniq[k] = len(rep)
            rep.append(i)
    verdicts, bad, inv_hits = judge_traces(ctx, wd, "ServeStartTrace", [records[i] for i in rep], _judge_consts(),
                                           invariants=[f"Inv_{c}" for c in CLAUSES], name="judge",
                                           chunk=3000 if quick else 8000)
    for clause, cex in inv_hits:
        cl = clause.replace("Inv_", "")
        ctx.violation(cl, {"clause": cl, "via": "model-invariant-on-conforming-trace"}, {"counterexample": cex[-6:]})
    n_conform = 0
    for j, i in enumerate(rep):
        meta, rec = metas[i], records[i]
        if verdicts[j] is None:
            n_conform += 1
            ctx.traces_validated += 1
        elif not meta["py_drift"]:
            ctx.drift.append({"level": meta["level"], "what": "TLC: recorded trace is not a behaviour of ServeStart",
                              "matched_steps": verdicts[j], "trace": rec, "schedule": meta["schedule"]})
        for clause in bad.get(j, []):
            ctx.violation(clause, {"clause": clause, "level": meta["level"], "mode": rec["mode"],
                                   "threads": meta["threads"]},
                          {"trace": rec, "schedule": meta["schedule"], "executed": meta["executed"],
                           "config": meta["config"],
                           "conforms_to_model": verdicts[j] is None})
    T["tlc_judge"] = round(time.time() - t3, 1)
    ctx.extra["distinct_traces_judged"] = len(rep)
    ctx.extra["traces_conforming"] = n_conform
    ctx.extra["drift_seen"] = bool(ctx.drift)
    ctx.extra["timing_s"] = T


def _edge_key(src, label, dst):
    act = label.split("(")[0]
    t = label[label.index('"') + 1:label.rindex('"')] if '"' in label else label
    kind = "req" if t.startswith("r") else ("shm" if t.startswith("m") else "srv")
    return (act, kind, src["hookMode"], src["maxReq"], src["bound"], dst["bound"], src["pc"][t], dst["pc"][t],
            len(src["inHook"]) if not isinstance(src["inHook"], (int, str)) else 0,
            sum(1 for p in src["pc"].values() if p == "want"), dst["outcome"][t])


def _tkey(evs: list[dict]) -> str:
    return "|".join(f"{e['e'][:2]}{e['t']}{e.get('k', '')}{e.get('route', '')}{e.get('ok', '')}{e.get('res', '')}"
                    f"{e.get('label', '')}@{e['b']}" for e in evs)
