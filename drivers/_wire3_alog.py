"""C34 helpers: replay an AccessLog.tla history on a real connection, capture the `vgi_rpc.access` records, format
them with the repo's JSON formatter, validate them against the repo's schema and project them for TLC."""
import json
import logging
import threading
from importlib import resources

import jsonschema

from drivers import _wire3_world as W

SHAPE = {"p": "prod", "ph": "prodh", "p0": "prod", "x": "exch"}
CAP_BYTES = 2048       # max_record_bytes of the second formatter every record is also rendered with
_CAP = W.AccessCapture()
_LOCK = threading.Lock()
_STATE: dict = {}


def install(level: int = logging.INFO) -> None:
    """Attach the capturing handler to the access logger (no source hook) and silence the error tracebacks."""
    acc = logging.getLogger("vgi_rpc.access")
    if _CAP not in acc.handlers:
        acc.addHandler(_CAP)
    acc.setLevel(level)
    acc.propagate = False
    root = logging.getLogger("vgi_rpc")
    if not _STATE.get("null"):
        root.addHandler(logging.NullHandler())
        root.propagate = False
        _STATE["null"] = True
    if "schema" not in _STATE:
        from vgi_rpc.logging_utils import VgiAccessLogFormatter

        text = resources.files("vgi_rpc").joinpath("access_log.schema.json").read_text(encoding="utf-8")
        schema = json.loads(text)
        jsonschema.Draft202012Validator.check_schema(schema)
        _STATE["schema"] = jsonschema.Draft202012Validator(schema)
        _STATE["fmt"] = VgiAccessLogFormatter()
        _STATE["cfmt"] = VgiAccessLogFormatter(max_record_bytes=CAP_BYTES)


def set_level(level: int) -> None:
    logging.getLogger("vgi_rpc.access").setLevel(level)


def _events_of_stream(res: dict) -> list:
    ev = []
    opened = False
    for e in res["events"]:
        k = e[0]
        if k == "opened":
            opened = True
            ev.append(["call", "ok"])
        elif k == "err":
            ev.append(["call" if e[1] == "call" else e[1].rstrip("0123456789"), "err"])
        elif k == "exc":
            ev.append(["call" if e[1] == "call" else e[1].rstrip("0123456789"), "exc:" + e[2]])
        elif k == "data":
            ev.append(["tick", "data"])
        elif k == "stop":
            ev.append(["tick", "stop"])
        elif k == "closed":
            ev.append(["close", "ok"])
        elif k == "cancelled":
            ev.append(["cancel", "ok"])
    del opened
    return ev


DEPLOYS = ("warm", "nocache", "two", "evict", "sticky", "auth", "hook")      # HTTP; sockets: "warm" (pipe), "unix", "hook"
INTERFERER = "xh"      # method of the interfering stream of the "evict" deployment (no C34 history uses it)


def _authenticate(req):
    from vgi_rpc.rpc import AuthContext

    return AuthContext(domain="test-realm", authenticated=True, principal="alice",
                       claims={"sub": "alice", "email": "alice@example.org", "roles": ["a", "b"], "ctx": {"tier": 2}})


def _http_world(tr: str, deploy: str, worlds: dict):
    key = (tr, deploy)
    w = worlds.get(key)
    if w is None:
        kw: dict = {"max_response_bytes": W.HTTP_CAP} if tr == "httpcap" else {}
        if deploy == "nocache":
            kw["call_state_cache_entries"] = 0          # every continuation misses the call-state cache
        elif deploy == "evict":
            kw["call_state_cache_entries"] = 1          # two interleaved streams evict each other's entry
        elif deploy == "sticky":
            kw["enable_sticky"] = True                  # sticky-session middleware in the path (session_action fields)
        elif deploy == "auth":
            kw["authenticate"] = _authenticate          # authenticated caller with claims
        w = worlds[key] = W.HttpWorld(workers=2 if deploy == "two" else 1, hook=deploy == "hook", **kw)
    return w


def run_history(tr: str, script: list, cls: str, text: str, argc: int, worlds: dict, timeout: float = 8.0,
                deploy: str = "warm") -> dict:
    """Replay one history.  Returns client events, server-side error texts (in order) and the captured records.

    HTTP deployments: "warm" one worker, default cache; "nocache" call_state_cache_entries=0; "two" two workers sharing
    the token key, requests alternating; "evict" one-entry cache and a second (exchange) stream B interleaved: B makes
    one exchange turn after every request of the history, so both streams always find the cache holding the other."""
    http = tr != "sock"
    if http:
        w = _http_world(tr, deploy, worlds)
    else:
        # one fresh real connection per history: a pipe, a unix socket pair, or a pipe whose server has a raising hook
        w = W.PipeWorld(pair="unix" if deploy == "unix" else "pipe", hook=deploy == "hook")
    _CAP.take()
    del W.TRUTH_ALL[:]
    events: list = []
    errs: list = []                # server-side error messages in order of occurrence
    other: dict = {"events": [], "n": 0}
    if http and deploy == "evict":
        from vgi_rpc.http import http_connect

        cm = http_connect(W.ErrSvc, client=w.inner)     # stream B talks to the same app, unrecorded
        bpx = cm.__enter__()
        sess = getattr(bpx, INTERFERER)(cls="ValueError", msg="", argc=1, site="none")
        other["events"].append(["call", "ok"])

        def after_post():
            other["n"] += 1
            sess.exchange(W.AnnotatedBatch(batch=W.pa.RecordBatch.from_pydict({"a": [other["n"]]}, schema=W.INP)))
            other["events"].append(["tick", "data"])

        w.client.after_post = after_post

    def body():
        for c in script:
            n_truth = sum(1 for t in W.TRUTH_ALL if t["type"])
            if c["k"] == "d":
                try:
                    if http:
                        from vgi_rpc.http import http_introspect

                        d = http_introspect(client=w.client)
                    else:
                        from vgi_rpc.introspect import introspect

                        d = introspect(w.ct)
                    events.append(["call", "ok" if d is not None else "bad"])
                except W.RpcError:
                    events.append(["call", "err"])
                continue
            if c["k"] == "big":
                try:
                    r = w.px.big(n=W.BIG_CHARS)
                    events.append(["call", "ok" if r == "B" * W.BIG_CHARS else "bad"])
                except W.RpcError as e:
                    events.append(["call", "err"])
                    errs.append(("client", e.error_message.removeprefix(str(e.error_type) + ": ")))
                continue
            shape = "unary" if c["k"] == "u" else SHAPE[c["k"]]
            site = "fin1" if c["k"] == "p0" else c["site"]
            res = W.run_call(w.px, shape, cls, text, argc, site, list(c["ops"]), http)
            if shape == "unary":
                k = res["events"][0][0]
                events.append(["call", "ok" if k == "result" else "err" if k == "err" else "exc:" + str(res["events"][0][-1])])
            else:
                events.extend(_events_of_stream(res))
            raised = [t for t in W.TRUTH_ALL if t["type"]][n_truth:]
            for t in raised:
                errs.append(("impl", t["text"]))
            if not raised and res["errors"]:
                # an error the implementation did not raise (cap overshoot): its server-side text is what the
                # client was told, minus the "<Type>: " prefix of the log summary
                e = res["errors"][0]
                errs.append(("client", e.error_message.removeprefix(str(e.error_type) + ": ")))

    try:
        _, hung = W.with_watchdog(body, timeout)
    finally:
        if http:
            w.client.after_post = None
    if other["events"]:
        other["events"].append(["close", "ok"])
        other["script"] = [{"k": "x", "site": "none", "ops": ["t"] * other["n"] + ["c"]}]
    server_died = []
    if not http:
        if not hung:
            # EOF ends the serve loop; the join makes every record visible.  A serve loop that does not end is
            # reported as a hang (drift), never judged on a possibly incomplete record list.
            if not w.close(join_timeout=20.0):
                hung = True
            server_died = list(w.died)
    recs = _CAP.take()
    mine = [r for r in recs if getattr(r, "method", None) != INTERFERER]
    theirs = [r for r in recs if getattr(r, "method", None) == INTERFERER]
    return {"events": events, "errs": errs, "records": mine, "hung": hung, "server_died": server_died,
            "other": dict(other, records=theirs) if other["events"] else None}


def project(records: list, errs: list) -> tuple[list, list]:
    """LogRecords -> (projection for TLC, details for the evidence)."""
    fmt, cfmt, validator = _STATE["fmt"], _STATE["cfmt"], _STATE["schema"]
    out, det = [], []
    sids: dict = {}
    k_err = 0
    for r in records:
        line = fmt.format(r)
        info: dict = {}
        try:
            payload = json.loads(line)
        except Exception as e:  # noqa: BLE001
            out.append({"mtype": "?", "method": "?", "sid": 0, "status": "?", "hasMsg": False, "full": False,
                        "valid": False, "cancelled": False, "csid": 0, "chasMsg": False, "cfull": False, "cvalid": False})
            det.append({"unparseable": repr(e), "line": line[:300]})
            continue
        if "\n" in line:
            info["literal_newline_in_line"] = True
        problems = [f"{'/'.join(str(x) for x in e.absolute_path) or '<record>'}: {e.message[:160]}"
                    for e in validator.iter_errors(payload)]
        sid = payload.get("stream_id")
        if sid:
            sids.setdefault(sid, len(sids) + 1)
        em = payload.get("error_message")
        status = payload.get("status")
        # the same record through the formatter with a small per-record cap (field shedding / sentinel form)
        cline = cfmt.format(r)
        try:
            cpayload = json.loads(cline)
            cproblems = [f"{'/'.join(str(x) for x in e.absolute_path) or '<record>'}: {e.message[:160]}"
                         for e in validator.iter_errors(cpayload)]
        except Exception as e:  # noqa: BLE001
            cpayload, cproblems = {}, [f"unparseable: {e!r}"]
        csid = cpayload.get("stream_id")
        if csid:
            sids.setdefault(csid, len(sids) + 1)
        cem = cpayload.get("error_message")
        full = cfull = True
        if status == "error":
            if k_err < len(errs):
                text = errs[k_err][1]
                full = (isinstance(em, str) and text in em) if text else True
                cfull = (isinstance(cem, str) and text in cem) if text else True
                info["server_text_len"] = len(text)
            k_err += 1
        out.append({"mtype": str(payload.get("method_type")), "method": str(payload.get("method")),
                    "sid": sids.get(sid, 0), "status": str(status), "hasMsg": isinstance(em, str) and len(em) > 0,
                    "full": bool(full), "valid": not problems and "\n" not in line,
                    "cancelled": payload.get("cancelled") is True,
                    "csid": sids.get(csid, 0), "chasMsg": isinstance(cem, str) and len(cem) > 0, "cfull": bool(cfull),
                    "cvalid": not cproblems and "\n" not in cline})
        if cproblems:
            info["capped_schema_problems"] = cproblems
            info["capped_truncated"] = cpayload.get("truncated")
        info.update({"schema_problems": problems, "error_message_len": len(em) if isinstance(em, str) else None,
                     "error_type": payload.get("error_type"), "http_status": payload.get("http_status"),
                     "stream_id": sid, "truncated": payload.get("truncated"),
                     "has_request_data": "request_data" in payload})
        det.append(info)
    return out, det
