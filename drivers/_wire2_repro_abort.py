"""Standalone reproduction of C05-shm-pointer-decoded-against-pointer-schema (no framework):
    /venv/bin/python drivers/_wire2_repro_abort.py [/path/to/repo]
A well-framed pointer request whose inline (zero-row) batch has a dictionary-encoded column makes the server rebuild
an IPC stream from *the inline schema* + the bytes found in the client's segment (vgi_rpc.shm._deserialize_from_shm,
dictionary path) and use the result without validation.  When the stored batch has another shape (here: one more
column in front) the buffers are read under the wrong schema; `batch.column(i)[0].as_py()` in _decode_request then
reads out of bounds: the whole server PROCESS dies with SIGSEGV / abort -- every connection, no reply.  The server is run
in a child process so that this script survives."""
import subprocess
import sys

REPO = sys.argv[1] if len(sys.argv) > 1 else "/repo"
CHILD = r'''
import io, sys, warnings, logging
sys.path.insert(0, sys.argv[1])
warnings.filterwarnings("ignore"); logging.disable(logging.CRITICAL)
from enum import Enum
from typing import Annotated, Protocol
import pyarrow as pa
from pyarrow import ipc
from vgi_rpc.rpc import RpcServer
from vgi_rpc.utils import ArrowType
from vgi_rpc.shm import HEADER_SIZE, ShmSegment

class Color(Enum):
    RED = "red"
class Svc(Protocol):
    def mix(self, a: Annotated[int, ArrowType(pa.int32())], c: Color) -> str: ...
class Impl:
    def mix(self, a: Annotated[int, ArrowType(pa.int32())], c: Color) -> str:
        return f"{a}{c.value}"
class T:
    def __init__(self, data): self.reader, self.writer = io.BytesIO(data), io.BytesIO()
    def close(self): pass

server = RpcServer(Svc, Impl())
decl = server.methods["mix"].params_schema
seg = ShmSegment.create(HEADER_SIZE + 65536)
try:
    red = pa.array(["RED"]).dictionary_encode().cast(decl.field("c").type)
    stored = pa.RecordBatch.from_arrays([pa.array(["1"]), pa.array([28], pa.int32()), red], names=["z", "a", "c"])
    off, ln = seg.allocate_and_write(stored)
    inline = pa.RecordBatch.from_arrays([pa.nulls(0, f.type) for f in decl], schema=decl)
    sink = io.BytesIO()
    with ipc.new_stream(sink, decl) as w:
        w.write_batch(inline, custom_metadata={b"vgi_rpc.method": b"mix", b"vgi_rpc.request_version": b"1",
            b"vgi_rpc.shm_segment_name": seg.name.encode(), b"vgi_rpc.shm_segment_size": str(seg.size).encode(),
            b"vgi_rpc.shm_offset": str(off).encode(), b"vgi_rpc.shm_length": str(ln).encode()})
    t = T(sink.getvalue())
    server.serve_one(t)
    b, md = ipc.open_stream(t.writer.getvalue()).read_next_batch_with_custom_metadata()
    print("answered:", (md or {}).get(b"vgi_rpc.log_message", b"<result>")[:100].decode())
finally:
    seg.unlink()
'''
p = subprocess.run([sys.executable, "-c", CHILD, REPO], capture_output=True, text=True)
print(p.stdout.strip() or "(no reply)")
print("server process exit status:", p.returncode, "(negative = killed by that signal)")
sys.exit(0 if p.returncode == 0 else 1)
