#!/venv/bin/python
"""Run the repository's pinned suite with the verification guard OFF and compare with BASELINE stable_pass.
Usage: tools/baseline_check.py [--repo /repo]   -> prints regressions (stable-pass tests that did not pass)."""
import json, os, subprocess, sys, tempfile, xml.etree.ElementTree as ET

repo = sys.argv[sys.argv.index("--repo") + 1] if "--repo" in sys.argv else "/repo"
base = json.load(open("/root/.vp/BASELINE.json"))
out = tempfile.mktemp(suffix=".xml", prefix="baseline-")
env = {k: v for k, v in os.environ.items() if k != "VGI_RPC_VERIF"}
cmd = ["/venv/bin/python", "-m", "pytest", "-ra", "-q", "-p", "no:cacheprovider", "--timeout=900",
       "--continue-on-collection-errors", f"--junitxml={out}"]
p = subprocess.run(cmd, cwd=repo, env=env, capture_output=True, text=True)
passed = set()
for tc in ET.parse(out).getroot().iter("testcase"):
    if not any(ch.tag in ("failure", "error", "skipped") for ch in tc):
        passed.add(f"{tc.get('classname')}::{tc.get('name')}")
os.unlink(out)
missing = [t for t in base["stable_pass"] if t not in passed]
print(f"stable_pass={len(base['stable_pass'])} passed_now={len(passed)} regressions={len(missing)}")
for t in missing[:80]:
    print("REGRESSION", t)
print(p.stdout[-1500:])
sys.exit(1 if missing else 0)
