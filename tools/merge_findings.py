#!/venv/bin/python
"""Merge known_findings.d/*.json into known_findings.json (canonical).  Usage:
   tools/merge_findings.py [PID=commit ...]   -> entries of PID get status fixed + commit (what prefixed 'fixed: ...')"""
import json, sys, glob, os
root = os.path.dirname(os.path.dirname(os.path.abspath(__file__)))
canon = json.load(open(f"{root}/known_findings.json"))
by_id = {f["id"]: f for f in canon}
fixed = dict(a.split("=") for a in sys.argv[1:])
for path in sorted(glob.glob(f"{root}/known_findings.d/*.json")):
    if os.path.basename(path).startswith("X"):
        continue            # extended-coverage checks (not listed properties) keep their findings in known_findings.d/ only
    for f in json.load(open(path)):
        pid = f["property"]
        if pid in fixed and f.get("status") == "open":
            f["status"] = "fixed"; f["commit"] = fixed[pid]
            if not f["what"].startswith("fixed:"):
                f["what"] = f"fixed: property={pid} {fixed[pid]} " + f["what"]
        by_id[f["id"]] = f
    # rewrite the draft too so both agree
    d = [by_id[x["id"]] for x in json.load(open(path))]
    json.dump(d, open(path, "w"), indent=1, ensure_ascii=False)
json.dump(list(by_id.values()), open(f"{root}/known_findings.json", "w"), indent=1, ensure_ascii=False)
print(len(by_id), "findings;", sum(1 for f in by_id.values() if f.get("status") == "open"), "open")
