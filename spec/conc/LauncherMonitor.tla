------------------------------- MODULE LauncherMonitor -------------------------------
(* The first sentence of C33 as a monitor over the *observable* history of concurrent launches of one worker
   command, independent of how launch() is coded.  Events, in the real total order:

     Spawn(w)       a launcher created worker process w
     Listening(w)   w bound its socket and listens (it printed UNIX:<path>)
     Closed(w)      w's listening socket was closed            Exit(w)   w's process ended
     Return(i, ok)  launch() of launcher i returned the path; ok = a connect() to that path made by the harness
                    at that very moment (nothing else ran in between) succeeded
     Fail(i)        launch() raised

   The monitor accepts every history; clauses are collected per trace.  This decides VIOLATION for the launcher;
   LauncherTrace decides drift.                                                                              *)
EXTENDS Naturals, FiniteSets, Sequences, TLC, Json, IOUtils
Traces == JsonDeserialize(IOEnv.TRACE_FILE)      \* array of [ev |-> <<[e, w, i, ok], ...>>]
VARIABLES tid, l, alive, listening, bad
mvars == <<tid, l, alive, listening, bad>>
MInit == /\ tid \in 1..Len(Traces) /\ l = 1 /\ alive = {} /\ listening = {} /\ bad = {}
Ev == Traces[tid].ev[l]
MNext ==
  /\ l <= Len(Traces[tid].ev) /\ l' = l + 1 /\ UNCHANGED tid
  /\ CASE Ev.e = "Spawn" ->
            /\ bad' = bad \cup (IF alive # {} THEN {"SpawnOnlyIfNoneAlive"} ELSE {})
            /\ alive' = alive \cup {Ev.w} /\ UNCHANGED listening
       [] Ev.e = "Listening" ->
            /\ listening' = listening \cup {Ev.w}
            /\ bad' = bad \cup (IF listening \ {Ev.w} # {} THEN {"AtMostOneServing"} ELSE {})
            /\ UNCHANGED alive
       [] Ev.e \in {"Closed", "Exit"} ->
            /\ alive' = alive \ {Ev.w} /\ listening' = listening \ {Ev.w} /\ UNCHANGED bad
       [] Ev.e = "Return" ->
            /\ bad' = bad \cup (IF ~Ev.ok THEN {"ReturnedAccepting"} ELSE {})
            /\ UNCHANGED <<alive, listening>>
       [] OTHER -> UNCHANGED <<alive, listening, bad>>
MSpec == MInit /\ [][MNext]_mvars
Track == TLCSet(tid, TLCGet(tid) \cup bad)
ASSUME \A i \in 1..Len(Traces) : TLCSet(i, {})
Verdicts == \A i \in 1..Len(Traces) : PrintT("@@J@@" \o ToJson([tid |-> i, bad |-> TLCGet(i)]))
=========================================================================================
