"""C39 helper: abstract service definition (Describe.tla record) -> Python source -> real RpcServer; and back
(real ServiceDescription -> the vocabulary of Describe!Payload).  Also runnable as a child process
(`python -m drivers._data_describe <defs.json>`) for the cross-process clause."""
from __future__ import annotations

import json
import re
import sys

PY_TYPE = {"int": "int", "i32": "Annotated[int, ArrowType(pa.int32())]", "str": "str", "float": "float", "bool": "bool",
           "bytes": "bytes", "list_int": "list[int]", "dc": "DcA"}
DEFAULTS = {"int": ("1", "2"), "i32": ("1", "2"), "str": ("'x'", "'y'"), "float": ("1.5", "2.5"), "bool": ("True", "False"),
            "bytes": ("b'x'", "b'y'"), "list_int": ("(1,)", "(2,)"), "dc": ("DcA(1, 'x')", "DcA(2, 'y')")}
VERSION = {"none": None, "v120": "1.2.0", "v130": "1.3.0"}
DOCS = {"d0": "Do the thing.", "d1": "Perform an entirely different operation, documented at length.",
        "d2": "Do the thing.\n\n        Args:\n            a: the first argument, now documented.\n            z: renamed.\n"}

PRELUDE = '''
from dataclasses import dataclass
from typing import Annotated, ClassVar, Optional, Protocol
import pyarrow as pa
from vgi_rpc.rpc import AnnotatedBatch, CallContext, ExchangeState, OutputCollector, ProducerState, RpcServer, Stream, StreamState
from vgi_rpc.utils import ArrowSerializableDataclass, ArrowType


@dataclass(frozen=True)
class DcA(ArrowSerializableDataclass):
    x: int
    y: str


@dataclass(frozen=True)
class H0(ArrowSerializableDataclass):
    """A header that carries no fields (its presence is the signal)."""


@dataclass(frozen=True)
class H1(ArrowSerializableDataclass):
    title: str
    n: int


@dataclass(frozen=True)
class H2(ArrowSerializableDataclass):
    title: str
    n: Optional[int]


@dataclass
class P1(ProducerState):
    n: int = 0

    def produce(self, out: OutputCollector, ctx: CallContext) -> None:
        out.finish()


@dataclass
class P2(ProducerState):
    label: str = ""
    k: float = 0.0

    def produce(self, out: OutputCollector, ctx: CallContext) -> None:
        out.finish()


@dataclass
class X1(ExchangeState):
    n: int = 0

    def exchange(self, input: AnnotatedBatch, out: OutputCollector, ctx: CallContext) -> None:
        out.emit(input.batch)


@dataclass
class X2(ExchangeState):
    label: str = ""

    def exchange(self, input: AnnotatedBatch, out: OutputCollector, ctx: CallContext) -> None:
        out.emit(input.batch)


@dataclass
class R1(StreamState):
    n: int = 0

    def process(self, input: AnnotatedBatch, out: OutputCollector, ctx: CallContext) -> None:
        out.finish()


@dataclass
class R2(StreamState):
    label: str = ""

    def process(self, input: AnnotatedBatch, out: OutputCollector, ctx: CallContext) -> None:
        out.finish()

'''


def _ann(t: str, nul: bool) -> str:
    return f"Optional[{PY_TYPE[t]}]" if nul else PY_TYPE[t]


def _sig(m: dict, with_defaults: bool = True) -> str:
    parts = ["self"]
    for p in m["params"]:
        s = f"{p['n']}: {_ann(p['t'], p['nul'])}"
        if with_defaults and p["dflt"] != "none":
            s += " = " + DEFAULTS[p["t"]][0 if p["dflt"] == "d1" else 1]
        parts.append(s)
    return ", ".join(parts)


def _ret(m: dict) -> str:
    k = m["kind"]
    if k == "unary_void":
        return "None"
    if k == "unary_ret":
        return _ann(m["ret"]["t"], m["ret"]["nul"])
    state = {"producer": {"s1": "P1", "s2": "P2"}, "exchange": {"s1": "X1", "s2": "X2"},
             "rawstream": {"s1": "R1", "s2": "R2"}}[k][m["st"]]
    return f"Stream[{state}]" if m["hdr"] == "none" else f"Stream[{state}, {m['hdr'].upper()}]"


def render(d: dict, server_id: str = "srv-a", impl_variant: int = 0) -> str:
    m = d["m"]
    first = f"    def {m['name']}({_sig(m)}) -> {_ret(m)}:\n        \"\"\"{DOCS[m['doc']]}\"\"\"\n        ...\n"
    second = "    def zz(self, x: int) -> int:\n        \"\"\"Fixed second method.\"\"\"\n        ...\n"
    methods = [first] + ([second] if d["second"] else [])
    if d["order"] == "21":
        methods.reverse()
    ver = VERSION[d["version"]]
    body = f"class {d['pname']}(Protocol):\n    \"\"\"{DOCS[d['pdoc']]}\"\"\"\n\n"
    if ver is not None:
        body += f"    protocol_version: ClassVar[str] = {ver!r}\n\n"
    body += "\n".join(methods)
    names = ", ".join(["self"] + [p["n"] for p in m["params"]])
    impl = f"\n\nclass Impl{impl_variant}:\n    def {m['name']}({names}):\n        raise NotImplementedError\n\n"
    impl += "    def zz(self, x):\n        return x\n"
    if impl_variant:
        impl += "\n    def extra_helper(self):\n        return 1\n"
    tail = f"\n\nSERVER = RpcServer({d['pname']}, Impl{impl_variant}(), server_id={server_id!r}, enable_describe=True)\n"
    return body + impl + tail


def render_full(d: dict, server_id: str = "srv-a", impl_variant: int = 0) -> str:
    """Stand-alone module source (what a second process would import)."""
    return PRELUDE + render(d, server_id, impl_variant)


_CACHE: dict[str, object] = {}
_PRELUDE_NS: dict | None = None


def _prelude() -> dict:
    """The fixed helper classes, defined once per interpreter (dataclass creation is the slow part)."""
    global _PRELUDE_NS
    if _PRELUDE_NS is None:
        import types

        mod = types.ModuleType("c39_generated_prelude")
        sys.modules[mod.__name__] = mod      # dataclasses resolve annotations through sys.modules[cls.__module__]
        exec(compile(PRELUDE, "<c39:prelude>", "exec"), mod.__dict__)  # noqa: S102
        _PRELUDE_NS = mod.__dict__
    return _PRELUDE_NS


def build(d: dict, server_id: str = "srv-a", impl_variant: int = 0, cache: bool = True):
    key = json.dumps([d, server_id, impl_variant], sort_keys=True)
    if cache and key in _CACHE:
        return _CACHE[key]
    ns = dict(_prelude())          # the shared dataclasses / state classes; type hints resolve against this namespace
    ns["__name__"] = "c39_generated_service"
    exec(compile(render(d, server_id, impl_variant), f"<c39:{d['pname']}>", "exec"), ns)  # noqa: S102
    srv = ns["SERVER"]
    if cache:
        _CACHE[key] = srv
    return srv


# ------------------------------------------------------------------ real description -> abstract payload
def _arrow_name(t) -> str:
    import pyarrow as pa

    table = [(pa.int64(), "int64"), (pa.int32(), "int32"), (pa.utf8(), "utf8"), (pa.float64(), "float64"), (pa.bool_(), "bool"),
             (pa.binary(), "binary")]
    for a, n in table:
        if t.equals(a):
            return n
    if pa.types.is_list(t) and t.value_type.equals(pa.int64()):
        return "list<int64>"
    return f"other:{t}"


def _fields(schema) -> list[dict]:
    return [{"n": f.name, "arrow": _arrow_name(f.type), "nul": bool(f.nullable)} for f in schema]


def _header_name(schema) -> str:
    if schema is None:
        return "none"
    f = _fields(schema)
    if not f:
        return "h0"
    if [x["n"] for x in f] == ["title", "n"] and f[0] == {"n": "title", "arrow": "utf8", "nul": False} and f[1]["arrow"] == "int64":
        return "h2" if f[1]["nul"] else "h1"
    return f"other:{schema}"


def abstract_payload(sd) -> dict:
    methods = []
    for name in sorted(sd.methods):
        md = sd.methods[name]
        methods.append({
            "name": md.name, "mtype": md.method_type.value, "has_return": bool(md.has_return),
            "params": _fields(md.params_schema), "result": _fields(md.result_schema), "has_header": bool(md.has_header),
            "header": _header_name(md.header_schema),
            "is_exchange": "null" if md.is_exchange is None else ("true" if md.is_exchange else "false")})
    return {"pname": sd.protocol_name, "methods": methods}


HEX64 = re.compile(r"\A[0-9a-f]{64}\Z")


def main(argv: list[str]) -> int:
    """Child process: build every definition in the file, print {key: hash}."""
    items = json.loads(open(argv[1]).read())
    out = {}
    for key, d, sid in items:
        out[key] = build(d, sid, 0, cache=False).protocol_hash
    sys.stdout.write(json.dumps(out))
    return 0


if __name__ == "__main__":
    sys.exit(main(sys.argv))
