--------------------------------- MODULE ConnIso ---------------------------------
(* Concurrent socket connections served by `_serve_socket_threaded` (vgi_rpc/rpc/_transport.py): one accept loop, one
   thread per accepted connection, an optional semaphore of max_connections permits, the real RpcServer.serve loop per
   connection (lock-step request/response), clients that run a call script and then close.

   Granularity = one scheduler step of one real thread (it runs from its park point to the next):
     loop   start -> accept (parked in accept(): enabled iff a connection is pending or the listener was closed)
            accept -> acq1 (conn.settimeout, about to take the state lock) -> acq2 (conn_count += 1; Thread created)
            -> accept (active.add; t.start())            closed: accept -> acqF -> done (join)
     h[c]   start -> sem (only with max_connections; parked before semaphore.acquire, enabled iff a permit is free)
            -> [transport built = the connection starts being served] read a request:
               io  (parked in recv: enabled iff the client has written something or closed)
               m   (parked inside the method body / process(); `pt`/`xe` = open + first turn park twice)
            EOF -> [transport.close = stops being served; semaphore.release] fin (about to take the state lock) -> done
     cl[c]  start -> connected (connect() done: the connection sits in the kernel backlog) -> wait (request written,
            parked in recv until the response is there) ... -> done (transport closed)
   The state lock is never held across a park point, so it is free at every step boundary and is not a variable.

   Service (per connection tag = 101 * c):  u -> tag*1000 + i;  producer: k-th output tag*1000 + k;
   exchange: running sum of the inputs (input of op number i is i).  Stream state lives in the per-call state
   object; SharedState = TRUE is the design error "one state for all connections" (kept to show the clause bites). *)
EXTENDS Integers, Sequences, FiniteSets, TLC

CONSTANTS Worlds,          \* set of [s |-> function conn -> sequence of ops, mx |-> max_connections]; mx = 0 stands
                           \* for None (no semaphore), otherwise the number of permits
          SharedState      \* design error switch (FALSE = intended)

VARIABLES script, mx, loop, acc, backlog, closed, cl, ip, req, rsp, rspv, eof, h, ml, permits, serving, sk, sa, obs
vars == <<script, mx, loop, acc, backlog, closed, cl, ip, req, rsp, rspv, eof, h, ml, permits, serving, sk, sa, obs>>

Conns == DOMAIN script
Tag(c) == 101 * c
Slot(c) == IF SharedState THEN 0 ELSE c
NM(op) == CASE op \in {"pt", "xe"} -> 2 [] op = "c" -> 0 [] OTHER -> 1      \* method-body park points of one client op

Init == /\ \E w \in Worlds : script = w.s /\ mx = w.mx
        /\ loop = "start" /\ acc = 0 /\ backlog = <<>> /\ closed = FALSE
        /\ cl = [c \in DOMAIN script |-> "start"] /\ ip = [c \in DOMAIN script |-> 0]
        /\ req = [c \in DOMAIN script |-> FALSE] /\ rsp = [c \in DOMAIN script |-> FALSE]
        /\ rspv = [c \in DOMAIN script |-> <<>>] /\ eof = [c \in DOMAIN script |-> FALSE]
        /\ h = [c \in DOMAIN script |-> "none"] /\ ml = [c \in DOMAIN script |-> 0]
        /\ permits = mx /\ serving = {}
        /\ sk = [s \in {0} \cup DOMAIN script |-> 0] /\ sa = [s \in {0} \cup DOMAIN script |-> 0]
        /\ obs = [c \in DOMAIN script |-> <<>>]

\* ------------------------------------------------------------------------------ accept loop
L == /\ CASE loop = "start" -> loop' = "accept" /\ UNCHANGED <<acc, backlog, h>>
          [] loop = "accept" /\ ~closed /\ backlog # <<>> ->
                 loop' = "acq1" /\ acc' = Head(backlog) /\ backlog' = Tail(backlog) /\ UNCHANGED h
          [] loop = "accept" /\ closed -> loop' = "acqF" /\ UNCHANGED <<acc, backlog, h>>
          [] loop = "acq1" -> loop' = "acq2" /\ UNCHANGED <<acc, backlog, h>>
          [] loop = "acq2" -> loop' = "accept" /\ h' = [h EXCEPT ![acc] = "start"] /\ UNCHANGED <<acc, backlog>>
          [] loop = "acqF" -> loop' = "done" /\ UNCHANGED <<acc, backlog, h>>
          [] OTHER -> FALSE
     /\ UNCHANGED <<script, mx, closed, cl, ip, req, rsp, rspv, eof, ml, permits, serving, sk, sa, obs>>
LEnabled == \/ loop \in {"start", "acq1", "acq2", "acqF"}
            \/ loop = "accept" /\ (closed \/ backlog # <<>>)

\* ------------------------------------------------------------------------------ client of connection c
Item(c) == rspv[c]
C(c) ==
  /\ c \in Conns
  /\ CASE cl[c] = "start" ->          \* connect(): the kernel queues the connection
            /\ cl' = [cl EXCEPT ![c] = "connected"] /\ backlog' = Append(backlog, c)
            /\ UNCHANGED <<ip, req, rsp, eof, obs>>
       [] cl[c] = "connected" \/ (cl[c] = "wait" /\ rsp[c]) ->
            /\ obs' = IF cl[c] = "wait" THEN [obs EXCEPT ![c] = Append(@, Item(c))] ELSE obs
            /\ rsp' = [rsp EXCEPT ![c] = FALSE]
            /\ IF ip[c] < Len(script[c])
               THEN /\ ip' = [ip EXCEPT ![c] = @ + 1] /\ req' = [req EXCEPT ![c] = TRUE]     \* write the next call, wait
                    /\ cl' = [cl EXCEPT ![c] = "wait"] /\ UNCHANGED eof
               ELSE /\ eof' = [eof EXCEPT ![c] = TRUE] /\ cl' = [cl EXCEPT ![c] = "done"]    \* close the transport
                    /\ UNCHANGED <<ip, req>>
            /\ UNCHANGED backlog
       [] OTHER -> FALSE
  /\ UNCHANGED <<script, mx, loop, acc, closed, rspv, h, ml, permits, serving, sk, sa>>
CEnabled(c) == cl[c] \in {"start", "connected"} \/ (cl[c] = "wait" /\ rsp[c])

\* ------------------------------------------------------------------------------ per-connection server thread
Op(c) == script[c][ip[c]]
\* RpcServer.serve: read the next request; park in recv if nothing is there; EOF ends the connection
ReadOrPark(c, rq, sv, pm) ==
  IF rq[c]
  THEN /\ req' = [rq EXCEPT ![c] = FALSE]
       /\ IF NM(Op(c)) = 0
          THEN \* close(): input EOS read, output EOS written, back to reading a request
               /\ rsp' = [rsp EXCEPT ![c] = TRUE] /\ rspv' = [rspv EXCEPT ![c] = <<"c", 0>>]
               /\ h' = [h EXCEPT ![c] = "io"] /\ UNCHANGED ml
          ELSE /\ h' = [h EXCEPT ![c] = "m"] /\ ml' = [ml EXCEPT ![c] = NM(Op(c))] /\ UNCHANGED <<rsp, rspv>>
       /\ serving' = sv /\ permits' = pm
  ELSE IF eof[c]
  THEN \* transport.close(); semaphore.release(); next: the state lock
       /\ serving' = sv \ {c} /\ permits' = pm + (IF mx > 0 THEN 1 ELSE 0)
       /\ h' = [h EXCEPT ![c] = "fin"] /\ UNCHANGED <<req, rsp, rspv, ml>>
  ELSE /\ h' = [h EXCEPT ![c] = "io"] /\ serving' = sv /\ permits' = pm /\ UNCHANGED <<req, rsp, rspv, ml>>
Result(c) ==          \* what the method / process() call that now returns hands back (i = 0-based op number)
  LET op == Op(c)  i == ip[c] - 1  s == Slot(c) IN
  CASE op = "u" -> [v |-> <<"r", Tag(c) * 1000 + i>>, k |-> sk, a |-> sa]
    [] op \in {"pt", "t"} -> [v |-> <<"d", Tag(c) * 1000 + sk[s] + 1>>, k |-> [sk EXCEPT ![s] = @ + 1], a |-> sa]
    [] OTHER -> [v |-> <<"d", Tag(c) * 1000 + sa[s] + i + 1>>, k |-> sk, a |-> [sa EXCEPT ![s] = @ + i + 1]]
H(c) ==
  /\ c \in Conns
  /\ CASE h[c] = "start" /\ mx > 0 ->
            h' = [h EXCEPT ![c] = "sem"] /\ UNCHANGED <<req, rsp, rspv, ml, permits, serving, sk, sa>>
       [] (h[c] = "start" /\ mx = 0) \/ (h[c] = "sem" /\ permits > 0) ->
            /\ ReadOrPark(c, req, serving \cup {c}, IF mx > 0 THEN permits - 1 ELSE permits)
            /\ UNCHANGED <<sk, sa>>
       [] h[c] = "io" /\ (req[c] \/ eof[c]) ->
            ReadOrPark(c, req, serving, permits) /\ UNCHANGED <<sk, sa>>
       [] h[c] = "m" /\ ml[c] > 1 ->      \* init returned: a fresh state object; the first turn's process() parks next
            /\ ml' = [ml EXCEPT ![c] = @ - 1]
            /\ sk' = IF Op(c) = "pt" THEN [sk EXCEPT ![Slot(c)] = 0] ELSE sk
            /\ sa' = IF Op(c) = "xe" THEN [sa EXCEPT ![Slot(c)] = 0] ELSE sa
            /\ UNCHANGED <<h, req, rsp, rspv, permits, serving>>
       [] h[c] = "m" /\ ml[c] = 1 ->      \* the call returns: response written, back to reading (the client is waiting)
            /\ rsp' = [rsp EXCEPT ![c] = TRUE] /\ rspv' = [rspv EXCEPT ![c] = Result(c).v]
            /\ sk' = Result(c).k /\ sa' = Result(c).a
            /\ h' = [h EXCEPT ![c] = "io"] /\ ml' = [ml EXCEPT ![c] = 0]
            /\ UNCHANGED <<req, permits, serving>>
       [] h[c] = "fin" -> h' = [h EXCEPT ![c] = "done"] /\ UNCHANGED <<req, rsp, rspv, ml, permits, serving, sk, sa>>
       [] OTHER -> FALSE
  /\ UNCHANGED <<script, mx, loop, acc, backlog, closed, cl, ip, eof, obs>>
HEnabled(c) == \/ h[c] \in {"start", "m", "fin"} \/ (h[c] = "sem" /\ permits > 0) \/ (h[c] = "io" /\ (req[c] \/ eof[c]))

\* the harness closes the listening socket once every connection has been served to its end
AllDone == \A c \in Conns : cl[c] = "done" /\ h[c] = "done"
CloseListener == /\ ~closed /\ AllDone /\ loop = "accept" /\ closed' = TRUE
                 /\ UNCHANGED <<script, mx, loop, acc, backlog, cl, ip, req, rsp, rspv, eof, h, ml, permits, serving, sk, sa, obs>>

\* (quantified over a constant range so that TLC labels every step with its thread; C / H check c \in Conns themselves)
Next == L \/ (\E c \in 1..3 : C(c)) \/ (\E c \in 1..3 : H(c)) \/ CloseListener
Spec == Init /\ [][Next]_vars

\* ------------------------------------------------------------------------------ property clauses (C41)
\* what connection c observes when it is served alone: a function of its script only
RECURSIVE SoloFrom(_, _, _, _, _)
SoloFrom(s, c, i, k, a) ==
  IF i > Len(s) THEN <<>>
  ELSE LET op == s[i] IN
       CASE op = "u" -> <<<<"r", Tag(c) * 1000 + (i - 1)>>>> \o SoloFrom(s, c, i + 1, k, a)
         [] op = "pt" -> <<<<"d", Tag(c) * 1000 + 1>>>> \o SoloFrom(s, c, i + 1, 1, a)
         [] op = "t" -> <<<<"d", Tag(c) * 1000 + k + 1>>>> \o SoloFrom(s, c, i + 1, k + 1, a)
         [] op = "xe" -> <<<<"d", Tag(c) * 1000 + i>>>> \o SoloFrom(s, c, i + 1, k, i)
         [] op = "e" -> <<<<"d", Tag(c) * 1000 + a + i>>>> \o SoloFrom(s, c, i + 1, k, a + i)
         [] OTHER -> <<<<"c", 0>>>> \o SoloFrom(s, c, i + 1, k, a)
Solo(c) == SoloFrom(script[c], c, 1, 0, 0)
IsPrefix(p, s) == Len(p) <= Len(s) /\ \A i \in 1..Len(p) : p[i] = s[i]
\* never more connections served at once than max_connections
ConcLimit == mx > 0 => Cardinality(serving) <= mx
\* each connection observes exactly what it would observe alone (stream states never shared)
IsoHistory == \A c \in Conns : IsPrefix(obs[c], Solo(c))
\* a connection beyond the limit waits and is served later: nothing is ever stuck or dropped
NoStarvation == (~LEnabled /\ (\A c \in Conns : ~CEnabled(c) /\ ~HEnabled(c)) /\ ~closed)
                   => (\A c \in Conns : cl[c] = "done" /\ h[c] = "done" /\ obs[c] = Solo(c))
Finished == loop = "done" => \A c \in Conns : obs[c] = Solo(c)
PermitsSane == permits >= 0 /\ (mx > 0 => permits + Cardinality(serving) = mx)
Clauses == {x \in {"ConcLimit", "IsoHistory", "NoStarvation"} :
              \/ (x = "ConcLimit" /\ ~ConcLimit) \/ (x = "IsoHistory" /\ ~IsoHistory) \/ (x = "NoStarvation" /\ ~NoStarvation)}
===================================================================================
