"""Helpers shared by the data-table drivers (C22, C43, C35)."""
import json

from vf import table


def judge_dedup(ctx, engine: str, module: str, records: list[dict], *, constants=None, chunk: int = 20000):
    """TLC judges every *distinct* (case, obs) pair once; the verdict is mapped back to every concrete
    execution that produced that pair.  records: [{"case", "obs", ...anything else (kept out of TLC)}].
    Returns [(record index, [clause names])]."""
    groups: dict[str, list[int]] = {}
    order: list[str] = []
    for i, r in enumerate(records):
        k = json.dumps([r["case"], r["obs"]], sort_keys=True)
        if k not in groups:
            groups[k] = []
            order.append(k)
        groups[k].append(i)
    uniq = []
    for k in order:
        c, o = json.loads(k)
        uniq.append({"case": c, "obs": o})
    bad = table.judge(ctx, engine, module, uniq, constants=constants, chunk=chunk)
    # judge() counted accepted *distinct* pairs; credit the concrete executions behind them as well
    bad_idx = {i for i, _ in bad}
    extra_ok = sum(len(groups[order[i]]) - 1 for i in range(len(order)) if i not in bad_idx)
    ctx.traces_validated += extra_ok
    out = []
    for ui, clauses in bad:
        for ri in groups[order[ui]]:
            out.append((ri, clauses))
    ctx.extra["distinct_case_obs_pairs_judged_by_tlc"] = ctx.extra.get("distinct_case_obs_pairs_judged_by_tlc", 0) + len(uniq)
    return out
