------------------------------ MODULE ShmXferMonitor ------------------------------
(* The C29 clauses decided on what a client can observe, independent of how the code is structured (this decides
   VIOLATION; ShmXferTrace decides drift).  One observation o per executed history:
     shm, inl   delivered history (result / data / error / stop tokens = digests of schema + rows + application
                metadata, provenance keys ignored, DESIGN 7a; an exception escaping the client or a dead server is a
                token too) over the shm-pipe and over a plain pipe
     calls      after every completed call (and every between-call release): nlive = allocation count read from the
                segment header, nheld = batches delivered through shm that the client still holds unreleased,
                tab = the allocation table <<off, len>>
     heldchk    for every batch the client held: digest when delivered, digest when finally released / at the end
     relerrs    exceptions raised by release(): the region a batch lived in was no longer allocated
   case c = [cap |-> bytes in the data region].  Conforms = names of the clauses that are false.                    *)
EXTENDS Integers, Sequences, FiniteSets, TLC

Leak(o, i) == IF i = 0 THEN 0 ELSE o.calls[i].nlive - o.calls[i].nheld
\* a call leaks when it ends with more live regions not referenced by any unreleased batch than it started with
LeakyCalls(o) == {i \in 1..Len(o.calls) : Leak(o, i) > Leak(o, i - 1) /\ Leak(o, i) > 0}
TabOK(c, t) == \A i \in 1..Len(t) : /\ t[i][1] >= 0 /\ t[i][2] > 0 /\ t[i][1] + t[i][2] <= c.cap
                                    /\ \A j \in 1..Len(t) : i = j \/ t[i][1] + t[i][2] <= t[j][1] \/ t[j][1] + t[j][2] <= t[i][1]
Transparent(c, o) == o.shm = o.inl
NoReuse(c, o) == /\ o.relerrs = <<>>                                                    \* nobody else freed it
                 /\ \A i \in 1..Len(o.heldchk) : o.heldchk[i].at = o.heldchk[i].end     \* a held batch never changes
                 /\ \A i \in 1..Len(o.calls) : /\ TabOK(c, o.calls[i].tab)             \* regions never overlap
                                               /\ o.calls[i].nlive >= o.calls[i].nheld \* a held region is never freed
                                               /\ Len(o.calls[i].tab) = o.calls[i].nlive
Conforms(c, o) == (IF Transparent(c, o) THEN {} ELSE {"Transparent"})
                  \cup {"NoLeak@" \o ToString(i) : i \in LeakyCalls(o)}
                  \cup (IF NoReuse(c, o) THEN {} ELSE {"NoReuse"})
===================================================================================
