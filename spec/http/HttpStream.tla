------------------------------------- MODULE HttpStream -------------------------------------
(* Stateless HTTP streaming: signed cursor/call tokens, per-worker call-state cache, token TTL.
   Follows vgi_rpc/http/server/_app_stream.py (_unpack_and_recover_state, _resolve_call_from_token, init) and
   _state_token.py (_open_cursor_token, _open_call_token, _CallStateCache).

   A stream is minted by Init on some worker for some identity and method: it gets a stream id, a call token
   [sid, ident, meth, created] (never re-issued) and a first cursor token [sid, ident, meth, created].  Every
   served continuation mints a fresh cursor (created = now).  Workers share the key; each has its own LRU cache
   of (sid, ident) -> expiry.

   A request Cont(w, ident, endpoint, cur, call) presents ANY minted cursor with ANY minted call token (or none,
   call = NoTok) under any identity at any method's endpoint -- legitimate requests are the special case
   Legit(req).  Order of checks as in the code:
     1 cursor AEAD   cur.ident = ident            (+ cur.meth = endpoint when FixMethodBind)
     2 cursor TTL    clock - cur.created <= TTL
     3 cache         hit on (cur.sid, ident) with expiry > clock, and the presented call token is absent or is the
                     very token the entry was built from (digest compare)  => served without opening the call token;
                     a hit with any OTHER call token is discarded and the request takes the miss path
     4 miss          call present, call.ident = ident (+ call.meth = endpoint when FixMethodBind),
                     clock - call.created <= TTL, call.sid = cur.sid; entry put with expiry
                     (FixCacheExpiry: call.created + TTL | as found: clock + TTL)
   Switches: TRUE = intended design (= the code after the fix commits), FALSE = the code as found.
     FixCacheExpiry  cache entries expire with the call token that justifies them
     FixMethodBind   both tokens are bound to the method that minted them
     FixHitWrongCall  a hit is honoured only for an absent or the matching call token (code since 4f2decc)
     FixHitChecksCall (NOT implemented in the code; known finding: the repository's own tests send continuations
                      without a call token to a warm worker) a hit requires the matching call token  *)
EXTENDS Naturals, Sequences, FiniteSets, TLC

CONSTANTS Workers, Idents, Methods, TTL, MaxClock, CacheCaps, MaxStreams, MaxReq,
          OnlyLegit,       \* generation aid: restrict continuations to legitimate requests (C14's quantifier)
          FixCacheExpiry, FixMethodBind, FixHitWrongCall, FixHitChecksCall,
          NoExpiry         \* the deployment runs with token_ttl = 0: tokens never expire (every other rule still applies)

NoTok == [sid |-> 0, ident |-> "-", meth |-> "-", created |-> 0]
VARIABLES clock, streams, cursors, cache, cap, nreq, last
vars == <<clock, streams, cursors, cache, cap, nreq, last>>
\* cap[w]: capacity of worker w's cache (chosen in Init from CacheCaps, constant afterwards)
\* streams: set of call tokens (one per stream);  cursors: set of cursor tokens minted so far
\* cache[w]: sequence of [sid, ident, exp], most recently used LAST

NoLast == [kind |-> "none", legit |-> FALSE, served |-> FALSE, cold |-> FALSE, foreign |-> FALSE, hit |-> FALSE,
           hitident |-> TRUE, paired |-> TRUE, req |-> <<>>]
Init == /\ clock = 0 /\ streams = {} /\ cursors = {} /\ cache = [w \in Workers |-> <<>>] /\ nreq = 0 /\ last = NoLast
        /\ cap \in [Workers -> CacheCaps]

Fresh(tok) == NoExpiry \/ clock - tok.created <= TTL
FarFuture == MaxClock + TTL + 1000     \* cache entries of a no-expiry deployment live for the cache's own (long) ttl
Drop(seq, sid, ident) == SelectSeq(seq, LAMBDA e : ~(e.sid = sid /\ e.ident = ident))
Put(seq, e, c) == LET s1 == Append(Drop(seq, e.sid, e.ident), e)
                  IN IF c = 0 THEN <<>> ELSE IF Len(s1) > c THEN Tail(s1) ELSE s1
Lookup(seq, sid, ident) == {i \in 1..Len(seq) : seq[i].sid = sid /\ seq[i].ident = ident}

InitStream(w, id, m) ==
  /\ nreq < MaxReq /\ Cardinality(streams) < MaxStreams
  /\ LET sid == Cardinality(streams) + 1
         tok == [sid |-> sid, ident |-> id, meth |-> m, created |-> clock] IN
     /\ streams' = streams \cup {tok} /\ cursors' = cursors \cup {tok}
     /\ cache' = [cache EXCEPT ![w] = Put(@, [sid |-> sid, ident |-> id, exp |-> IF NoExpiry THEN FarFuture ELSE clock + TTL], cap[w])]
  /\ nreq' = nreq + 1 /\ last' = [NoLast EXCEPT !.kind = "init", !.req = <<w, id, m>>] /\ UNCHANGED <<clock, cap>>

MethOK(tok, ep) == FixMethodBind => tok.meth = ep
\* what a worker whose cache is empty answers (pure function of the request and the clock)
ColdServes(id, ep, cur, call) ==
  /\ cur.ident = id /\ MethOK(cur, ep) /\ Fresh(cur)
  /\ call # NoTok /\ call.ident = id /\ MethOK(call, ep) /\ Fresh(call) /\ call.sid = cur.sid
Legit(id, ep, cur, call) == cur.ident = id /\ cur.meth = ep /\ call \in streams /\ call.sid = cur.sid

Cont(w, id, ep, cur, call) ==
  /\ nreq < MaxReq
  /\ (OnlyLegit => Legit(id, ep, cur, call))
  /\ LET aead == cur.ident = id /\ MethOK(cur, ep)
         live == Lookup(cache[w], cur.sid, id)
         hit == aead /\ Fresh(cur) /\ live # {} /\ (\E i \in live : cache[w][i].exp > clock)
                /\ (FixHitWrongCall => (call = NoTok \/ call.sid = cur.sid))      \* one call token per stream: same sid = same token
                /\ (FixHitChecksCall => (call # NoTok /\ call.ident = id /\ call.sid = cur.sid /\ MethOK(call, ep)))
         expired == aead /\ Fresh(cur) /\ live # {} /\ ~(\E i \in live : cache[w][i].exp > clock)
         miss == aead /\ Fresh(cur) /\ ~hit
         missok == miss /\ call # NoTok /\ call.ident = id /\ MethOK(call, ep) /\ Fresh(call) /\ call.sid = cur.sid
         served == hit \/ missok
         base == IF expired \/ miss THEN Drop(cache[w], cur.sid, id) ELSE cache[w]
         newexp == IF NoExpiry THEN FarFuture ELSE IF FixCacheExpiry THEN call.created + TTL ELSE clock + TTL
     IN /\ cache' = [cache EXCEPT ![w] =
                       IF hit THEN Put(@, cache[w][CHOOSE i \in live : cache[w][i].exp > clock], cap[w])   \* move_to_end, same expiry
                       ELSE IF missok THEN Put(base, [sid |-> cur.sid, ident |-> id, exp |-> newexp], cap[w])
                       ELSE IF expired THEN base ELSE @]
        /\ cursors' = IF served THEN cursors \cup {[cur EXCEPT !.created = clock]} ELSE cursors
        /\ last' = [kind |-> "cont", legit |-> Legit(id, ep, cur, call), served |-> served,
                    cold |-> ColdServes(id, ep, cur, call), foreign |-> served /\ cur.meth # ep, hit |-> hit,
                    hitident |-> (hit => cur.ident = id),
                    paired |-> (served => (call # NoTok /\ call.sid = cur.sid /\ call.ident = id)),
                    req |-> <<w, id, ep, cur, call>>]
  /\ nreq' = nreq + 1 /\ UNCHANGED <<clock, streams, cap>>

Tick == /\ clock < MaxClock /\ clock' = clock + 1 /\ last' = NoLast /\ UNCHANGED <<streams, cursors, cache, cap, nreq>>

Next == \/ \E w \in Workers, id \in Idents, m \in Methods : InitStream(w, id, m)
        \/ \E w \in Workers, id \in Idents, ep \in Methods, cur \in cursors, call \in streams \cup {NoTok} :
              Cont(w, id, ep, cur, call)
        \/ Tick
Spec == Init /\ [][Next]_vars

\* ------------------------------------------------------------------ clauses
\* C14: for legitimate requests the cache never changes the outcome; a hit never crosses identities
CacheTransparent == (last.kind = "cont" /\ last.legit) => last.served = last.cold
HitSameIdentity == last.hitident
\* C13: a method never processes state another method's initialization produced
MethodBound == ~last.foreign
\* C12 (state-machine part): served only with tokens of the same stream, identity, within TTL
ServedOnlyGenuinePair == last.served => last.paired
\* what the code guarantees since 4f2decc: a PRESENTED call token is never ignored
ServedOnlyWithOwnOrNoCall == last.served => (last.req[5] = NoTok \/ last.paired)
ServedImpliesColdOK == (last.kind = "cont" /\ FixHitChecksCall) => (last.served => last.cold)
TypeOK == clock \in 0..MaxClock /\ nreq \in 0..MaxReq
==============================================================================================
