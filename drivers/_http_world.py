"""Real stateless-HTTP streaming stack for the HttpStream engine (C12/C13/C14): several WSGI workers sharing one
token key, header-selected identities, a logical clock installed in the token/stream modules, state classes that
log every hook, and raw /init + /exchange requests carrying chosen tokens."""
import types
import warnings
from dataclasses import dataclass
from typing import Protocol

import falcon.testing
import pyarrow as pa

import vgi_rpc.http.server._app_stream as APPSTREAM
import vgi_rpc.http.server._state_token as STATETOK
from vf import world
from vgi_rpc.http import make_wsgi_app
from vgi_rpc.rpc import (AnnotatedBatch, AuthContext, CallContext, ExchangeState, OutputCollector, ProducerState,
                         RpcServer, Stream)

warnings.filterwarnings("ignore")
K_STATE = b"vgi_rpc.stream_state#b64"
K_CALL = b"vgi_rpc.call_state#b64"
K_CANCEL = b"vgi_rpc.cancel"
INP = pa.schema([pa.field("a", pa.int64())])
OUT = pa.schema([pa.field("v", pa.int64())])
IDENT = {"anon": None, "A": ("a", "bc"), "B": ("ab", "c"), "C": ("", "anonymous")}
HOOKS: list = []   # (hook, endpoint or None, state.tag, state.secret)
SECRET = "S3CR3T-PLAINTEXT-MARKER-7f3a9c"


class _Logged:
    def bind_call_state(self, call_state) -> None:  # noqa: ANN001
        HOOKS.append(("bind_call_state", None, self.tag))

    def rehydrate(self, implementation) -> None:  # noqa: ANN001
        HOOKS.append(("rehydrate", None, self.tag))

    def on_cancel(self, ctx: CallContext) -> None:
        HOOKS.append(("on_cancel", getattr(ctx, "_method_name", None), self.tag))


@dataclass
class SA(_Logged, ExchangeState):
    tag: str
    n: int = 0
    secret: str = SECRET

    def exchange(self, input: AnnotatedBatch, out: OutputCollector, ctx: CallContext) -> None:
        HOOKS.append(("process", getattr(ctx, "_method_name", None), self.tag))
        self.n += 1
        out.emit_pydict({"v": [self.n]})


@dataclass
class SB(_Logged, ExchangeState):
    tag: str
    n: int = 0
    secret: str = SECRET

    def exchange(self, input: AnnotatedBatch, out: OutputCollector, ctx: CallContext) -> None:
        HOOKS.append(("process", getattr(ctx, "_method_name", None), self.tag))
        self.n += 1
        out.emit_pydict({"v": [1000 + self.n]})


@dataclass
class PD(_Logged, ProducerState):
    tag: str
    n: int = 0
    secret: str = SECRET

    def produce(self, out: OutputCollector, ctx: CallContext) -> None:
        HOOKS.append(("process", getattr(ctx, "_method_name", None), self.tag))
        self.n += 1
        if self.n > 50:
            out.finish()
            return
        out.emit_pydict({"v": [2000 + self.n]})


class HttpSvc(Protocol):
    def xa(self) -> Stream[ExchangeState]: ...
    def xb(self) -> Stream[ExchangeState]: ...
    def xc(self) -> Stream[ExchangeState]: ...
    def xu(self, which: int) -> Stream[ExchangeState]: ...
    def pd(self) -> Stream[ProducerState]: ...
    def pe(self) -> Stream[ProducerState]: ...


class Impl:
    def xa(self) -> Stream[SA]:
        return Stream(output_schema=OUT, state=SA(tag="xa"), input_schema=INP)

    def xb(self) -> Stream[SA]:
        return Stream(output_schema=OUT, state=SA(tag="xb"), input_schema=INP)

    def xc(self) -> Stream[SB]:
        return Stream(output_schema=OUT, state=SB(tag="xc"), input_schema=INP)

    def xu(self, which: int) -> Stream[SA | SB]:
        st = SA(tag="xu") if which == 0 else SB(tag="xu")
        return Stream(output_schema=OUT, state=st, input_schema=INP)

    def pd(self) -> Stream[PD]:
        return Stream(output_schema=OUT, state=PD(tag="pd"))

    def pe(self) -> Stream[PD]:
        return Stream(output_schema=OUT, state=PD(tag="pe"))


STREAM_METHODS = {"xa": "exch", "xb": "exch", "xc": "exch", "xu": "exch", "pd": "prod", "pe": "prod"}


def _authenticate(req):
    h = req.get_header("X-Ident")
    if not h:
        return AuthContext.anonymous()
    d, p = IDENT[h]
    return AuthContext(domain=d, authenticated=True, principal=p)


class Clock:
    def __init__(self) -> None:
        self.now = 1_000_000.0
        import time as _t

        ns = types.SimpleNamespace(**{k: getattr(_t, k) for k in dir(_t) if not k.startswith("__")})
        ns.time = lambda: self.now
        self._orig = (STATETOK.time, APPSTREAM.time)
        STATETOK.time = ns
        APPSTREAM.time = ns

    def restore(self) -> None:
        STATETOK.time, APPSTREAM.time = self._orig


class Worker:
    def __init__(self, key: bytes, cache_entries: int, ttl: int, server_id: str = "w", prod_cap: int | None = None) -> None:
        self.server = RpcServer(HttpSvc, Impl(), server_id=server_id)
        # no response cap: a producer turn ends after one batch, so every turn hands out a cursor token
        self.app = make_wsgi_app(self.server, token_key=key, token_ttl=ttl, call_state_cache_entries=cache_entries,
                                 authenticate=_authenticate, max_response_bytes=prod_cap)
        self.client = falcon.testing.TestClient(self.app)

    def _hdr(self, ident: str) -> dict:
        h = {"Content-Type": world.ARROW_CT}
        if ident != "anon":
            h["X-Ident"] = ident
        return h

    def init(self, meth: str, ident: str, which: int = 0) -> dict:
        schema = self.server.methods[meth].params_schema
        body = world.raw_request(meth.encode(), schema, {"which": which} if meth == "xu" else {})
        r = self.client.simulate_post(f"/{meth}/init", body=body, headers=self._hdr(ident))
        return parse(r)

    def cont(self, endpoint: str, ident: str, cursor: bytes | None, call: bytes | None, cancel: bool = False,
             extra_md: dict | None = None) -> dict:
        kind = STREAM_METHODS[endpoint]
        if kind == "exch":
            batch = pa.RecordBatch.from_pydict({"a": [1]}, schema=INP)
        else:
            batch = pa.RecordBatch.from_arrays([], schema=pa.schema([]))
        md = {}
        if cursor is not None:
            md[K_STATE] = cursor
        if call is not None:
            md[K_CALL] = call
        if cancel:
            md[K_CANCEL] = b"1"
        md.update(extra_md or {})
        body = world.ipc_stream(batch.schema, [(batch, md)])
        r = self.client.simulate_post(f"/{endpoint}/exchange", body=body, headers=self._hdr(ident))
        return parse(r)


def parse(r) -> dict:
    """HTTP response -> {status, served, error, cursor, call, values}"""
    out = {"status": r.status_code, "error": None, "cursor": None, "call": None, "values": [], "body": r.content}
    if r.headers.get("content-type", "").startswith(world.ARROW_CT):
        for s in world.read_streams(r.content):
            e = world.error_of(s)
            if e and out["error"] is None:
                out["error"] = e
            for b, md in s["batches"]:
                if md.get(K_STATE) is not None:
                    out["cursor"] = md[K_STATE]
                if md.get(K_CALL) is not None:
                    out["call"] = md[K_CALL]
                if b.num_rows and "v" in b.schema.names:
                    out["values"] += b.column("v").to_pylist()
    out["served"] = r.status_code == 200 and out["error"] is None
    return out
