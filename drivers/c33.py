"""C33 -- launcher spawns once; socket workers never vanish under a client.

spec/conc/Launcher.tla           launch() x N around the per-hash lock, probe, unlink-stale, spawn, worker life
spec/conc/LauncherTrace.tla      recorded real executions must be behaviours of Launcher (drift detector + clauses)
spec/conc/LauncherMonitor.tla    the first sentence of C33 over the observable history (decides VIOLATION)
spec/conc/IdleAccept.tla         _serve_socket_threaded: accept loop, conn_count, idle Timer, shutdown_requested
spec/conc/IdleAcceptTrace.tla    recorded real executions must be behaviours of IdleAccept
spec/conc/IdleAcceptMonitor.tla  the second sentence of C33 over the observable history (decides VIOLATION)
"""
import time
from concurrent.futures import ThreadPoolExecutor

from drivers import _conc2_idle as IA
from drivers import _conc2_launch as LA
from vf import tracecheck
from vf.core import Ctx
from vf.graph import dump_graph
from vf.tlc import MachineryError, Raw, render_cfg, require_ok, run_tlc, sany

META = {
    "engine": "conc",
    "text": "TLC model-checks two lock-granular TLA+ state machines exhaustively: IdleAccept (accept loop with the "
            "0.5 s accept timeout as its own action, conn_count, every Timer object with fire and callback as "
            "separate steps, shutdown_requested, per-connection threads, max_connections semaphore) and Launcher (N "
            "launch() processes x hashed / explicit socket path x the per-hash lock x probe x unlink-stale x spawn x "
            "stdout noise lines before the UNIX: line x worker bind/serve/close/unlink x inode-number reuse x a "
            "concurrent gc_state_dir pass). "
            "The intended designs must satisfy the C33 clauses; interleavings taken from TLC's state graphs of the "
            "design the code under test follows (decided by two scripted calibration runs each) are forced step by "
            "step onto the real _serve_socket_threaded / launch() / serve_unix by a deterministic scheduler, plus "
            "random walks over whatever the real code enables; TLC judges every observable history with the Monitor "
            "specs (VIOLATION) and validates every step trace against the model with the Trace specs (drift).  "
            "Thorough adds one run with real processes: concurrent real launch() calls (real flock, real worker "
            "processes), the worker's real idle exit and a relaunch, judged by the same monitor.",
    "note": "Trusted: the cooperative scheduler (one thread runs between park points: state_lock / file-lock acquires, "
            "accept(), serve(), semaphore, probe, unlink, Popen, stdout.readline, worker check/bind/serve/unlink, gc "
            "trylock); the OS file lock as a mutex (FileLock replaced by a scheduler lock; subprocess.Popen replaced by "
            "a fake under the real _spawn_worker); launcher *processes* are threads calling the real launch(); "
            "workers are threads running the real serve_unix prologue/epilogue on real AF_UNIX sockets with the accept "
            "loop replaced by a park point; Timer expiry is a scheduler decision (no wall clock); a worker does not "
            "idle-exit while its spawner still waits for the UNIX: line; Windows named pipes are not covered.",
    "technique": "TLC exhaustive interleaving exploration of lock-granular TLA+ models; TLC-generated schedules replayed "
                 "on real threads by a deterministic scheduler; TLC trace validation + property monitors",
}

IA_CLAUSES = ["NoExitWhileServing", "ExitOnlyAfterIdlePeriod", "NoLateAcceptAbandoned"]
LA_CLAUSES = ["AtMostOneServing", "SpawnOnlyIfNoneAlive", "ReturnedAccepting"]


def _fz(x):
    return tuple(sorted(x.items())) if isinstance(x, dict) else tuple(x)


def _vals(x):
    return tuple(sorted(x.values())) if isinstance(x, dict) else tuple(sorted(x))


# ------------------------------------------------------------------------------------------------ IdleAccept
def _ia_cause(trace: list[dict]) -> str:
    """Descriptor of *how* the real run got there (for the known-findings signature only; not a verdict)."""
    causes = set()
    prev = None
    for i, e in enumerate(trace):
        if e["a"] == "Loop" and prev is not None and prev["a"] == "Loop" and prev["acc"] == "conn" and e["sr"] == 1:
            causes.add("shutdown_flag_survives_accept")
        if e["a"] == "TRun" and i > 0:
            before = trace[i - 1]
            if before["tm"] not in (-1, e["t"]) and (e["sr"] == 1 and before["sr"] == 0):
                causes.add("stale_timer_callback")
        if e["a"] == "Loop":
            prev = e
    if all(e["sr"] == -1 for e in trace):
        return "unobservable"
    return "+".join(sorted(causes)) or "other"


def _ia_jobs(ctx: Ctx, wd, pool) -> dict:
    quick = ctx.quick
    n_mc = 2 if quick else 3
    flags = IA.calibrate()
    ctx.extra["idle_accept_design_followed_by_code"] = flags
    jobs = {"flags": flags, "n_mc": n_mc,
            "intended": pool.submit(run_tlc, wd, "IdleAccept", render_cfg(
                constants={"MaxConns": n_mc, "MaxParSet": Raw("{0,1}" if quick else "{0,1,2}"), "FixClearOnAccept": True,
                           "FixStaleTimer": True},
                invariants=["TypeOK", "CountSane", "PermitsSane"] + IA_CLAUSES), coverage=True, cfg_name="IA_intended.cfg", workers=4)}
    for n in ([2] if quick else [2, 3]):
        jobs[f"graph{n}"] = pool.submit(dump_graph, wd, "IdleAccept", render_cfg(constants={"MaxConns": n, "MaxParSet": Raw("{0,1}"), **flags}),
                                        name=f"ia{n}", workers=4)
    if not quick:
        jobs["shipped"] = pool.submit(run_tlc, wd, "IdleAccept", render_cfg(
            constants={"MaxConns": 2, "MaxParSet": Raw("{0,1}"), "FixClearOnAccept": False, "FixStaleTimer": False},
            invariants=IA_CLAUSES), cfg_name="IA_shipped.cfg")
        for v, inv in (("vac1", "NeverExits"), ("vac2", "NeverLate")):
            jobs[v] = pool.submit(run_tlc, wd, "IdleAccept", render_cfg(
                constants={"MaxConns": 2, "MaxParSet": Raw("{0,1}"), "FixClearOnAccept": True, "FixStaleTimer": True},
                invariants=[inv]),
                cfg_name=f"IA_{v}.cfg")
    return jobs


def _ia_replay(ctx: Ctx, wd, pool, jobs) -> dict:
    quick = ctx.quick
    flags = jobs["flags"]
    runs, metas = [], []
    for n in ([2] if quick else [2, 3]):
        gr, g = jobs[f"graph{n}"].result()
        ctx.add_tlc(f"IdleAccept graph MaxConns={n} {flags}", gr)
        require_ok(gr, "IdleAccept state graph")
        if n == 2 and quick:
            key = lambda s, lab, d: (lab, s["maxPar"], s["permits"], s["lpc"], s["shutdownReq"], s["connCount"], s["timer"], _fz(s["tst"]))  # noqa: E731
        elif n == 2:
            key = None
        else:
            key = lambda s, lab, d: (lab, s["maxPar"], s["permits"], s["lpc"], s["shutdownReq"], s["connCount"], s["timer"], _fz(s["tst"]))  # noqa: E731
        paths = g.edge_cover_paths(ctx.rng, key=key)
        if not quick and n == 2:
            more, _ = g.all_paths(40, 400)
            paths += more
        for nodes, labs in paths:
            beh = g.path_to_behaviour(nodes, labs)
            res = IA.run_path(beh, n, max_par=g.state(nodes[0])["maxPar"])
            sched = [b["action"] + ("(" + ",".join(b["args"]) + ")" if b["args"] else "") for b in beh]
            runs.append(res)
            metas.append({"n": n, "source": "tlc-graph", "schedule": sched})
            ctx.case(["IA", n, sched], nontrivial=len(sched) >= 6)
            if res["drift"]:
                ctx.drift.append({"spec": "IdleAccept", **res["drift"]})
            if res["errors"]:
                ctx.drift.append({"spec": "IdleAccept", "thread_errors": res["errors"]})
    for i in range(80 if quick else 500):
        n = 2 if i % 2 == 0 else 3
        res = IA.run_random(ctx.rng, n, serve_raises=(1,) if i % 5 == 0 else (), max_connections=ctx.rng.choice([None, None, 1, 2]))
        sched = [f"{e['a']}{e['c'] or e['t'] or ''}{':' + e['acc'] if e['acc'] else ''}" for e in res["trace"]]
        runs.append(res)
        metas.append({"n": n, "source": "random-walk", "schedule": sched})
        ctx.case(["IA", "rand", n, sched], nontrivial=len(sched) >= 6)
    ctx.sample({"spec": "IdleAccept", "schedule": metas[len(metas) // 3]["schedule"],
                "observable_history": [f"{e['e']}{e['c'] or e['t'] or ''}" for e in runs[len(metas) // 3]["mon"]]})
    # TLC decides: monitor over the observable histories; Trace for conformance to the model
    tcfg = {"MaxConns": 3, "MaxParSet": Raw("{0,1,2}"), "FixClearOnAccept": False, "FixStaleTimer": False}   # switches are per-step in the trace spec
    return {"runs": runs, "metas": metas,
            "mon": pool.submit(tracecheck.validate, ctx, wd, "IdleAcceptMonitor", [{"ev": r["mon"]} for r in runs],
                               spec="MSpec", name="IdleAcceptMonitor", chunk=4000),
            "trace": pool.submit(tracecheck.validate, ctx, wd, "IdleAcceptTrace",
                                 [{"mp": r["mp"], "ev": [{k: v for k, v in e.items() if k != "h"} for e in r["trace"]]} for r in runs],
                                 constants=tcfg, name="IdleAcceptTrace", chunk=4000)}


def _ia_finish(ctx: Ctx, jobs, rep) -> None:
    runs, metas = rep["runs"], rep["metas"]
    mons, trs = rep["mon"].result(), rep["trace"].result()
    accepted = 0
    for r, m, mv, tv in zip(runs, metas, mons, trs):
        if tv["matched"] == tv["len"]:
            accepted += 1
            if sorted(tv["bad"]) != sorted(mv["bad"]):
                ctx.drift.append({"spec": "IdleAccept", "monitor_and_model_disagree": [mv["bad"], tv["bad"]],
                                  "schedule": m["schedule"]})
        else:
            ev = r["trace"][tv["matched"]] if tv["matched"] < len(r["trace"]) else None
            ctx.drift.append({"spec": "IdleAccept", "trace_rejected_at": tv["matched"], "event": ev,
                              "schedule": m["schedule"][:tv["matched"] + 1]})
        for clause in mv["bad"]:
            ctx.violation(clause, {"spec": "IdleAccept", "cause": _ia_cause(r["trace"])},
                          {"schedule": m["schedule"], "source": m["source"], "observable_history": r["mon"],
                           "mp": r["mp"], "ops": [[e["a"], e["c"] or e["t"], e["acc"]] for e in r["trace"]]})
    ctx.traces_validated += accepted
    ctx.extra["idle_accept_runs"] = len(runs)
    ctx.extra["idle_accept_traces_accepted"] = accepted
    r = ctx.add_tlc(f"IdleAccept intended design exhaustive MaxConns={jobs['n_mc']}", jobs["intended"].result())
    require_ok(r, "IdleAccept.tla (intended design) must satisfy the C33 clauses")
    if "shipped" in jobs:
        s = ctx.add_tlc("IdleAccept shipped design (documented counterexample)", jobs["shipped"].result())
        ctx.extra["idle_accept_shipped_design_violates"] = s.violated
        ctx.extra["idle_accept_shipped_design_counterexample"] = [a for a, _ in s.counterexample]
        for v in ("vac1", "vac2"):
            if jobs[v].result().violated is None:
                raise MachineryError(f"IdleAccept vacuity guard {v} was not violated: the clauses would hold vacuously")


# ------------------------------------------------------------------------------------------------ Launcher
def _la_cause(trace: list[dict]) -> str:
    for i, e in enumerate(trace):
        if e["a"] == "W" and i > 0:
            b = trace[i - 1]
            k = e["k"]
            if b["path"] not in (0, k) and e["path"] == 0 and b["path"] <= len(b["ic"]) and k <= len(b["ic"]) \
                    and b["ic"][b["path"] - 1] == b["ic"][k - 1]:
                return "exiting_worker_unlinks_successor_socket_with_reused_inode"
    return "other"


_LA_FULL = {"HashedSet": Raw("{TRUE,FALSE}"), "NoiseSet": Raw("{0,1}"), "GcInit": Raw('{"start"}')}


def _la_key(s, lab, d):
    return (lab, s["hashed"], s["gpc"], s["meta"], s["lk"] != 0, s["path"] != 0, _vals(s["wst"]), _vals(s["pc"]),
            _vals(s["noise"]), _fz(d["ino"]))


def _la_jobs(ctx: Ctx, wd, pool) -> dict:
    quick = ctx.quick
    n_mc = 3 if quick else 4
    cal = LA.calibrate()
    ctx.extra["launcher_design_followed_by_code"] = cal
    jobs = {"cal": cal, "n_mc": n_mc,
            "intended": pool.submit(run_tlc, wd, "Launcher", render_cfg(
                constants={"NLaunch": n_mc, "FixUnlinkFirst": True, "InodeReuse": True, **_LA_FULL},
                invariants=["TypeOK", "LockSane", "NoLaunchFails"] + LA_CLAUSES), coverage=True,
                cfg_name="LA_intended.cfg", workers=4)}
    for n in ([2] if quick else [2, 3]):
        jobs[f"graph{n}"] = pool.submit(dump_graph, wd, "Launcher", render_cfg(
            constants={"NLaunch": n, "FixUnlinkFirst": cal["FixUnlinkFirst"], "InodeReuse": True, **_LA_FULL}), name=f"la{n}", workers=4)
    if not quick:
        jobs["shipped_noreuse"] = pool.submit(run_tlc, wd, "Launcher", render_cfg(
            constants={"NLaunch": 3, "FixUnlinkFirst": False, "InodeReuse": False, **_LA_FULL},
            invariants=["TypeOK", "LockSane", "NoLaunchFails"] + LA_CLAUSES), cfg_name="LA_shipped0.cfg")
        jobs["shipped"] = pool.submit(run_tlc, wd, "Launcher", render_cfg(
            constants={"NLaunch": 3, "FixUnlinkFirst": False, "InodeReuse": True, **_LA_FULL},
            invariants=LA_CLAUSES), cfg_name="LA_shipped1.cfg")
        for v, inv in (("vac1", "NeverReuses"), ("vac2", "NeverRespawns"), ("vac3", "NeverCollects")):
            jobs[v] = pool.submit(run_tlc, wd, "Launcher", render_cfg(
                constants={"NLaunch": 2, "FixUnlinkFirst": True, "InodeReuse": True, **_LA_FULL}, invariants=[inv]),
                cfg_name=f"LA_{v}.cfg")
    return jobs


def _la_replay(ctx: Ctx, wd, pool, jobs) -> dict:
    quick = ctx.quick
    cal = jobs["cal"]
    runs, metas = [], []
    t0 = time.time()
    for n, budget in ([(2, 30.0)] if quick else [(2, 35.0), (3, 70.0)]):
        gr, g = jobs[f"graph{n}"].result()
        ctx.add_tlc(f"Launcher graph NLaunch={n} FixUnlinkFirst={cal['FixUnlinkFirst']}", gr)
        require_ok(gr, "Launcher state graph")
        res, cov, tot = LA.online_walks(g, n, ctx.rng, max_walks=100000, key=None if (n == 2 and not quick) else _la_key,
                                        deadline=time.time() + budget)
        ctx.extra[f"launcher_graph_edge_classes_covered_N{n}"] = f"{cov}/{tot}"
        for r in res:
            runs.append(r)
            sched = [f"{e['a']}{e['k']}" for e in r["trace"]]
            metas.append({"n": n, "source": "tlc-graph", "schedule": sched})
            ctx.case(["LA", n, sched], nontrivial=len({s for s in sched if s[0] == "L"}) >= 2)
            if r["drift"]:
                ctx.drift.append({"spec": "Launcher", **r["drift"]})
            if r["errors"]:
                ctx.drift.append({"spec": "Launcher", "thread_errors": r["errors"]})
    for i in range(80 if quick else 450):
        n = 2 if i % 4 == 0 else 3
        r = LA.run_random(ctx.rng, n, hashed=ctx.rng.random() < 0.7, gc=ctx.rng.random() < 0.4)
        runs.append(r)
        sched = [f"{e['a']}{e['k']}" for e in r["trace"]]
        metas.append({"n": n, "source": "random-walk", "schedule": sched})
        ctx.case(["LA", "rand", n, sched], nontrivial=len({s for s in sched if s[0] == "L"}) >= 2)
    ctx.extra["launcher_replay_wall_s"] = round(time.time() - t0, 1)
    ctx.sample({"spec": "Launcher", "schedule": metas[len(metas) // 2]["schedule"],
                "observable_history": [f"{e['e']}{e['w'] or e['i']}{'' if e['e'] != 'Return' else (':ok' if e['ok'] else ':refused')}"
                                       for e in runs[len(metas) // 2]["mon"]]})
    smoke = None
    if not quick:
        smoke = LA.real_process_smoke()
        ctx.case(["LA", "real-processes", 4])
        ctx.extra["launcher_real_process_smoke"] = smoke["facts"]
    return {"runs": runs, "metas": metas, "smoke": smoke,
            "mon": pool.submit(tracecheck.validate, ctx, wd, "LauncherMonitor", [{"ev": r["mon"]} for r in runs],
                               spec="MSpec", name="LauncherMonitor", chunk=4000),
            "trace": pool.submit(tracecheck.validate, ctx, wd, "LauncherTrace", [{**r["header"], "ev": r["trace"]} for r in runs],
                                 constants={"NLaunch": 3, "FixUnlinkFirst": cal["FixUnlinkFirst"], "InodeReuse": True,
                                            "HashedSet": Raw("{TRUE,FALSE}"), "NoiseSet": Raw("{0,1}"),
                                            "GcInit": Raw('{"start","off"}')},
                                 name="LauncherTrace", chunk=4000)}


def _la_finish(ctx: Ctx, wd, jobs, rep) -> None:
    runs, metas = rep["runs"], rep["metas"]
    mons, trs = rep["mon"].result(), rep["trace"].result()
    if rep["smoke"] is not None:       # real launcher calls, real flock, real worker processes, real idle exit
        sv = tracecheck.validate(ctx, wd, "LauncherMonitor", [{"ev": rep["smoke"]["mon"]}], spec="MSpec",
                                 name="LauncherMonitor (real processes)")[0]
        for clause in sv["bad"]:
            ctx.violation(clause, {"spec": "Launcher", "cause": "real-process-run"},
                          {"observable_history": rep["smoke"]["mon"], "facts": rep["smoke"]["facts"]})
        if not sv["bad"]:
            ctx.traces_validated += 1
    accepted = 0
    for r, m, mv, tv in zip(runs, metas, mons, trs):
        if tv["matched"] == tv["len"]:
            accepted += 1
            if sorted(tv["bad"]) != sorted(mv["bad"]):
                ctx.drift.append({"spec": "Launcher", "monitor_and_model_disagree": [mv["bad"], tv["bad"]],
                                  "schedule": m["schedule"]})
        else:
            ev = r["trace"][tv["matched"]] if tv["matched"] < len(r["trace"]) else None
            ctx.drift.append({"spec": "Launcher", "trace_rejected_at": tv["matched"], "event": ev,
                              "schedule": m["schedule"][:tv["matched"] + 1]})
        for clause in mv["bad"]:
            ctx.violation(clause, {"spec": "Launcher", "cause": _la_cause(r["trace"])},
                          {"schedule": m["schedule"], "source": m["source"], "observable_history": r["mon"],
                           "launch_results": r["results"], "n": m["n"], "hashed": r["header"]["hashed"],
                           "gc": r["header"]["gpc0"] != "off",
                           "ops": [[e["a"], e["k"], (e["nz"][-1] if e["nz"] else 0)] for e in r["trace"]]})
    ctx.traces_validated += accepted
    ctx.extra["launcher_runs"] = len(runs)
    ctx.extra["launcher_traces_accepted"] = accepted
    r = ctx.add_tlc(f"Launcher intended design exhaustive NLaunch={jobs['n_mc']} (inode reuse allowed)",
                    jobs["intended"].result())
    require_ok(r, "Launcher.tla (intended design) must satisfy the C33 clauses")
    if "shipped" in jobs:
        r0 = ctx.add_tlc("Launcher shipped exit order, filesystem never reuses inode numbers",
                         jobs["shipped_noreuse"].result())
        require_ok(r0, "Launcher.tla (shipped exit order, no inode reuse) must satisfy the C33 clauses")
        s = ctx.add_tlc("Launcher shipped exit order + inode reuse (documented counterexample)", jobs["shipped"].result())
        ctx.extra["launcher_shipped_design_violates"] = s.violated
        ctx.extra["launcher_shipped_design_counterexample"] = [a for a, _ in s.counterexample]
        for v in ("vac1", "vac2", "vac3"):
            if jobs[v].result().violated is None:
                raise MachineryError(f"Launcher vacuity guard {v} was not violated")


def _replay(ctx: Ctx, wd, rec: dict) -> None:
    """./check C33 --replay F: re-execute the recorded operations on the real code and let the monitor judge again."""
    d, spec = rec["detail"], rec["sig"]["spec"]
    if spec == "IdleAccept":
        with IA.IdleWorld(max_connections=d.get("mp") or None) as w:
            for a, k, acc in d["ops"]:
                {"Arrive": lambda: w.arrive(), "Loop": lambda: w.loop(acc), "H": lambda: w.handler(k),
                 "TFire": lambda: w.fire(k), "TRun": lambda: w.timer_run(k)}[a]()
            w.settle()
            mon, trace = w.monitor_history(), list(w.trace)
        v = tracecheck.validate(ctx, wd, "IdleAcceptMonitor", [{"ev": mon}], spec="MSpec")[0]
        cause = _ia_cause(trace)
    else:
        with LA.LaunchWorld(d["n"], hashed=d.get("hashed", True), gc=d.get("gc", False)) as w:
            for a, k, *nz in d["ops"]:
                w.step(a, k, noise=nz[0] if nz else None)
            mon, trace = list(w.mon), list(w.trace)
        v = tracecheck.validate(ctx, wd, "LauncherMonitor", [{"ev": mon}], spec="MSpec")[0]
        cause = _la_cause(trace)
    ctx.case(["replay", d["ops"]], sample={"replayed": d["schedule"], "clauses_now": v["bad"]})
    for clause in v["bad"]:
        ctx.violation(clause, {"spec": spec, "cause": cause}, {**d, "observable_history": mon})


def run(ctx: Ctx) -> None:
    wd = ctx.wd.stage("conc")
    if getattr(ctx, "replay_record", None):
        _replay(ctx, wd, ctx.replay_record)
        return
    if not ctx.quick:       # (quick: every module is parsed by the TLC runs below; `./check --setup` runs SANY on all)
        for m in ("IdleAcceptTrace", "IdleAcceptMonitor", "LauncherTrace", "LauncherMonitor"):
            sany(wd, m)
    ctx.rule = ("a case = one complete interleaving executed on the real code: for IdleAccept a sequence of "
                "{Arrive, loop step, handler step, timer fire, timer callback} operations on the real "
                "_serve_socket_threaded; for Launcher a sequence of {launcher i step, worker w step} on N real "
                "launch() threads + real serve_unix worker threads.  Generated as edge(-class)-covering paths of TLC's "
                "state graph (all maximal paths up to a cap in thorough) plus random walks over the operations the real "
                "code enables.  non-trivial = IdleAccept schedules with >= 6 operations; Launcher schedules in which "
                ">= 2 launchers took steps.")
    ctx.assume("accept() returns TimeoutError only when nothing is queued; a connection queued when the loop exits is "
               "not 'accepted' and is outside the statement",
               "'stops accepting' = the accept loop's first step after its last accept() call, when it ends on its own",
               "'alive' worker = spawned and listening socket not yet closed; 'accepting at that moment' = a connect() "
               "made by the harness immediately after launch() returned (nothing else ran in between) succeeds",
               "a worker does not idle-exit while its spawner waits for the readiness line (startup grace >= 60 s)",
               "the per-hash OS file lock is a mutex (filelock keeps the lock file and re-checks st_nlink)",
               "threading.Timer semantics: cancel() after the wait elapsed does not stop the callback")
    with ThreadPoolExecutor(max_workers=4 if ctx.quick else 6) as pool:
        ia = _ia_jobs(ctx, wd, pool)
        la = _la_jobs(ctx, wd, pool)
        ia_rep = _ia_replay(ctx, wd, pool, ia)
        la_rep = _la_replay(ctx, wd, pool, la)
        _ia_finish(ctx, ia, ia_rep)
        _la_finish(ctx, wd, la, la_rep)
    ctx.exhaustive = True
