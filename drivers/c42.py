"""C42 -- the serve-start hook runs exactly once per binding.

Spec: spec/conc/ServeStart.tla (threads of first HTTP requests + serve() calls at lock granularity; hook modes
      ok / raises once / raises always; wrong-design variants as vacuity guard), spec/conc/ServeStartTrace.tla.

Pipeline
  1. TLC model-checks ServeStart exhaustively (2-3 request threads, up to 2 requests each, 0-2 serve() threads of
     kinds pipe/unix, all hook modes): the design satisfies the four clauses, every wrong variant falsifies some.
  2. Level A (spec -> code): every path of the dumped state graph is forced, step by step, onto a real RpcServer
     behind the real HTTP middleware stack (falcon app from make_wsgi_app) and real serve() calls on
     PipeTransport / UnixTransport; the transport lock is a scheduler shim lock (vgi_rpc.rpc._server.threading is
     patched while the server is constructed), the implementation's on_serve_start parks once inside the hook.
     After every step the park label and server.transport_kind are compared with the spec state.
  3. Level B (code -> spec): every real schedule of the same scenarios (stateless DFS over the scheduler's
     choices), independent of the model's idea of where the lock is.
  4. TLC judges every recorded trace: conformance to ServeStart (reject = drift) and the clauses on the recorded
     events (false = VIOLATION).
"""
import io
import logging
import re
import socket
import sys
import time
import warnings
from typing import Protocol

from vf import world
from vf.core import Ctx
from vf.graph import dump_graph
from vf.sched import Blocked, Scheduler, SchedTimeout
from vf.tlc import MachineryError, ModelValues, Raw, render_cfg, require_ok, run_tlc, sany

from drivers._c23c42_util import explore, judge_traces, parallel_tlc

META = {
    "engine": "conc",
    "text": "ServeStart.tla is a TLA+ state machine of 2-3 HTTP first-request threads (transport_kind-is-None test "
            "outside the lock, _notify_transport under the lock: recheck, hook, commit) and 0-2 serve() threads "
            "rebinding to pipe/unix, with hook outcome ok / raises once / raises always, model-checked exhaustively "
            "by TLC with the clause invariants OncePerBinding / HookBeforeDispatch / RaisingHookUnrecorded / "
            "NextRequestRerunsHook (four wrong-design variants must falsify them).  Every path of the dumped state "
            "graph is forced onto a real RpcServer behind the real falcon middleware stack and real serve() calls "
            "by a deterministic scheduler (shim transport lock, hook body parks), compared with the spec state after "
            "each step; every real schedule of the scenarios is explored as well; all recorded traces are judged by "
            "TLC (conformance + clauses).",
    "note": "Trusted: vf/sched.py; the harness implementation (on_serve_start / method bodies emit events and park "
            "once inside the hook); server.transport_kind read after every step as the observation of the binding. "
            "Not covered: bindings that differ only in capabilities (ShmPipeTransport), TCP kind, pre-fork "
            "processes (one process only).",
}

CLAUSES = ["OncePerBinding", "HookBeforeDispatch", "RaisingHookUnrecorded", "NextRequestRerunsHook"]
MODEL_INVS = [f"Inv_{c}" for c in CLAUSES] + ["TypeOK", "AlwaysRaisingNeverBinds", "Vacuity"]
WRONG = ["commit-first", "no-recheck", "no-lock", "sticky-failure"]


def _S(xs) -> Raw:
    return Raw("{" + ", ".join(f'"{x}"' for x in xs) + "}")


def _consts(reqs, pipes, unixes, maxreqs, modes, variants=("design",), sym=False) -> dict:
    return {"Reqs": ModelValues(*reqs) if sym else _S(reqs), "PipeSrvs": _S(pipes), "UnixSrvs": _S(unixes),
            "MaxReqs": set(maxreqs), "HookModes": _S(modes), "Variants": _S(variants)}


# ---------------------------------------------------------------------------------------------- real world
class Svc(Protocol):
    def u(self, x: int) -> int: ...


class HookFailure(RuntimeError):
    pass


class World:
    """A real RpcServer (shim transport lock) + the real HTTP app + logical threads issuing requests / serve()."""

    def __init__(self, mode: str, max_req: int, reqs: list[str], pipes: list[str], unixes: list[str]) -> None:
        import vgi_rpc.rpc._server as srvmod
        from vgi_rpc.http._testing import make_sync_client
        from vgi_rpc.rpc import RpcServer

        self.sched = sched = Scheduler(step_timeout=30.0)
        self.events: list[dict] = []
        self.mode = mode
        self.max_req = max_req
        self.reqs, self.pipes, self.unixes = reqs, pipes, unixes
        self.threads = reqs + pipes + unixes
        self.calls = 0
        self.executed: list[str] = []
        w = self

        class Impl:
            def on_serve_start(self, kind) -> None:
                w.calls += 1
                n = w.calls
                k = str(getattr(kind, "value", kind))
                w.ev(e="HookStart", k=k)
                sched.yield_point("hook")
                if w.mode == "always" or (w.mode == "once" and n == 1):
                    w.ev(e="HookEnd", k=k, ok=False)
                    raise HookFailure(f"on_serve_start failure #{n}")
                w.ev(e="HookEnd", k=k, ok=True)

            def u(self, x: int) -> int:
                w.ev(e="Dispatch")
                return x + 1

        orig = getattr(srvmod, "threading", None)
        if orig is not None:
            srvmod.threading = sched.threading_shim()  # BEFORE constructing the server: __init__ creates the lock
        try:
            self.server = RpcServer(Svc, Impl())
        finally:
            if orig is not None:
                srvmod.threading = orig
        self.shimmed = bool(sched.locks)
        self.client = make_sync_client(self.server, enable_landing_page=False, enable_describe_page=False,
                                       enable_not_found_page=False)
        self.body = world.raw_request(b"u", self.server.methods["u"].params_schema, {"x": 1})
        for t in reqs:
            sched.spawn(t, self._req_body, t)
        for t in pipes:
            sched.spawn(t, self._srv_body, t, "pipe")
        for t in unixes:
            sched.spawn(t, self._srv_body, t, "unix")

    # -- events
    def binding(self) -> str:
        k = self.server.transport_kind
        return "none" if k is None else str(getattr(k, "value", k))

    def ev(self, **k) -> None:
        k.setdefault("t", self.sched._me() or "main")
        k["b"] = self.binding()
        self.events.append(k)

    # -- thread bodies
    def _req_body(self, t: str) -> None:
        for i in range(self.max_req):
            if i:
                self.sched.yield_point("next")
            self.ev(e="Begin", k="http")
            n0 = len(self.events)
            try:
                r = self.client.post("/u", content=self.body, headers={"Content-Type": world.ARROW_CT})
                status = r.status_code
            except HookFailure:
                status = 500           # a WSGI server answers 500 when the app raises
            disp = any(e["e"] == "Dispatch" and e["t"] == t for e in self.events[n0:])
            self.ev(e="End", res="dispatched" if (status == 200 and disp) else "failed", status=status)

    def _srv_body(self, t: str, kind: str) -> None:
        from vgi_rpc.rpc._transport import PipeTransport, UnixTransport

        self.ev(e="Begin", k=kind)
        n0 = len(self.events)
        a = b = None
        try:
            if kind == "pipe":
                out = io.BytesIO()
                tr = PipeTransport(io.BytesIO(self.body), out)
            else:
                a, b = socket.socketpair()
                a.sendall(self.body)
                a.shutdown(socket.SHUT_WR)
                tr = UnixTransport(b)
            try:
                self.server.serve(tr)
                failed = False
            except HookFailure:
                failed = True
        finally:
            for s in (a, b):
                if s is not None:
                    try:
                        s.close()
                    except OSError:
                        pass
        disp = any(e["e"] == "Dispatch" and e["t"] == t for e in self.events[n0:])
        self.ev(e="End", res="dispatched" if (disp and not failed) else "failed", status=0)

    # -- control
    @staticmethod
    def pc_of(label: str) -> str:
        if label.startswith("acq:"):
            return "want"
        return {"hook": "hook", "next": "start", "start": "start", "EXIT": "done"}.get(label, label)

    def step(self, t: str) -> str:
        self.executed.append(t)
        lab = self.sched.step(t)
        self.events.append({"e": "Step", "t": t, "label": self.pc_of(lab), "b": self.binding()})
        return lab

    def finish(self) -> bool:
        for _ in range(10000):
            live = [t for t in self.threads if t not in self.sched.done]
            if not live:
                return True
            r = [t for t in live if self.sched.enabled(t)]
            if not r:
                return False
            self.step(r[0])
        return False

    def close(self) -> None:
        if any(t not in self.sched.done for t in self.threads):
            self.sched.release_all()

    def record(self) -> dict:
        evs = []
        for e in self.events:
            e = dict(e)
            e.pop("status", None)
            evs.append(e)
        return {"mode": self.mode, "maxReq": self.max_req, "ev": evs}


def replay_path(mode: str, max_req: int, reqs, pipes, unixes, beh: list[dict]):
    """Force one TLC path onto the real server.  Returns (record, drift | None)."""
    w = World(mode, max_req, reqs, pipes, unixes)
    drift = None
    n = 0
    try:
        if not w.shimmed:
            drift = {"what": "RpcServer's transport lock is not created through the patched threading module; "
                             "schedule control unavailable"}
        for st in beh if drift is None else []:
            act, args, s = st["action"], st["args"], st["state"]
            n += 1
            t = args[0]
            if drift is not None:
                # the real code left the model earlier: keep following the schedule (best effort, no comparison)
                if t not in w.sched.done and w.sched.enabled(t):
                    w.step(t)
                continue
            lab = w.step(t)
            got_pc, got_b = w.pc_of(lab), w.binding()
            if got_pc != s["pc"][t] or got_b != s["bound"]:
                drift = {"step": n, "action": f"{act}({t})", "pc": got_pc, "expected_pc": s["pc"][t],
                         "binding": got_b, "expected_binding": s["bound"]}
        ok = w.finish()
        if not ok and drift is None:
            drift = {"what": "threads deadlocked while finishing"}
    except (SchedTimeout, Blocked) as e:
        drift = drift or {"what": f"scheduler: {type(e).__name__}: {e}", "step": n}
    finally:
        w.close()
    errs = {t: repr(e) for t, e in w.sched.errors.items()}
    if errs and drift is None:
        drift = {"what": "thread raised", "errors": errs}
    return w.record(), drift, w.executed


def run_real_schedule(scn: dict, prefix: list[str], lenient: bool = False):
    w = World(scn["mode"], scn["maxReq"], scn["reqs"], scn["pipes"], scn["unixes"])
    decisions = []
    stuck = None
    try:
        last = None
        k = 0
        while True:
            live = [t for t in w.threads if t not in w.sched.done]
            if not live:
                break
            en = [t for t in live if w.sched.enabled(t)]
            if not en:
                stuck = {"what": "deadlock", "parked": dict(w.sched.parked)}
                break
            opts = ([last] if last in en else []) + [t for t in en if t != last]
            preempting = set(opts[1:]) if last in en else set()
            ch = prefix[k] if k < len(prefix) else opts[0]
            if ch not in opts:
                if not lenient:
                    stuck = {"what": "schedule prefix not reproducible", "at": k, "want": ch, "options": opts}
                    break
                ch = opts[0]
            k += 1
            w.step(ch)
            last = ch
            decisions.append((opts, ch, preempting, True))
    except (SchedTimeout, Blocked) as e:
        stuck = {"what": f"scheduler: {type(e).__name__}: {e}"}
    finally:
        w.close()
    errs = {t: repr(e) for t, e in w.sched.errors.items()}
    return {"record": w.record(), "stuck": stuck, "errors": errs, "schedule": [d[1] for d in decisions],
            "shimmed": w.shimmed}, decisions


# ---------------------------------------------------------------------------------------------- driver
ALLM = ("ok", "once", "always")


class _Quiet:
    """The hook failures are logged by design and falcon's test client reports them on wsgi.errors (= sys.stderr)."""

    def __enter__(self):
        self.old_disable = logging.root.manager.disable
        logging.disable(logging.CRITICAL)
        self.old_err = sys.stderr
        sys.stderr = io.StringIO()
        return self

    def __exit__(self, *a):
        sys.stderr = self.old_err
        logging.disable(self.old_disable)


def _judge_consts() -> dict:
    return _consts(["r1", "r2", "r3"], ["s1", "s3"], ["s2"], (1, 2), ALLM)


def _replay(ctx: Ctx, rec: dict, wd) -> None:
    """./check C42 --replay FILE : re-execute the recorded schedule on the real code and let TLC judge it again."""
    d, sig = rec["detail"], rec["sig"]
    cfg = d["config"]
    scn = {"mode": cfg["mode"], "maxReq": cfg["maxReq"], "reqs": cfg["reqs"], "pipes": cfg["pipes"],
           "unixes": cfg["unixes"], "pb": None}
    with _Quiet():
        out, _ = run_real_schedule(scn, d["executed"], lenient=True)
    rec2 = out["record"]
    ctx.case(("replay", _tkey(rec2["ev"])), sample={"replayed_trace": rec2})
    verdicts, bad, inv_hits = judge_traces(ctx, wd, "ServeStartTrace", [rec2], _judge_consts(),
                                           invariants=[f"Inv_{c}" for c in CLAUSES], name="replay")
    ctx.extra["replay_same_trace"] = (rec2["ev"] == d["trace"]["ev"])
    for clause in bad.get(0, []):
        ctx.violation(clause, dict(sig, clause=clause), {"trace": rec2, "schedule": d["schedule"],
                                                         "executed": d["executed"], "config": cfg})


def run(ctx: Ctx) -> None:
    warnings.filterwarnings("ignore")
    quick = ctx.quick
    wd = ctx.wd.stage("conc")
    sany(wd, "ServeStartTrace")
    if getattr(ctx, "replay_record", None):
        _replay(ctx, ctx.replay_record, wd)
        return
    ctx.rule = ("case = one execution of the real RpcServer + HTTP middleware (+ serve() calls) under one forced "
                "schedule (a TLC path of ServeStart, or one real schedule of a scenario); non-trivial = distinct "
                "(hook mode, requests per thread, event trace); clauses are judged by TLC on the recorded trace")
    ctx.assume("a 'binding' is a maximal period during which RpcServer.transport_kind has one value; it is observed "
               "by reading the public property at every recorded event and after every scheduler step",
               "'the next request runs it again': an HTTP request that begins while nothing is bound runs the hook "
               "itself unless a hook run succeeds while it is in flight",
               "bindings that differ only in capabilities (shm) and the TCP kind are not exercised",
               "bounds: <=3 HTTP threads x <=2 requests, <=2 serve() calls (pipe, unix)")
    T = {}
    t0 = time.time()
    W = 2
    if quick:
        mcs = [("mc-design-3req-2srv", _consts(["r1", "r2", "r3"], ["s1"], ["s2"], (1, 2), ALLM, sym=True)),
               ("mc-variants", _consts(["r1", "r2"], ["s1"], [], (1, 2), ALLM, ["design"] + WRONG, sym=True))]
        # (reqs, pipes, unixes, maxreqs, modes, mode)
        dumps = [(["r1", "r2"], [], [], (1, 2), ALLM, "all"),
                 (["r1", "r2"], ["s1"], [], (1,), ALLM, "all"),
                 (["r1", "r2", "r3"], ["s1"], ["s2"], (1,), ALLM, "cover")]
        n_random = 30
    else:
        mcs = [("mc-design-3req-3srv", _consts(["r1", "r2", "r3"], ["s1", "s3"], ["s2"], (1, 2), ALLM, sym=True)),
               ("mc-variants", _consts(["r1", "r2", "r3"], ["s1"], ["s2"], (1, 2), ALLM, ["design"] + WRONG, sym=True))]
        dumps = [(["r1", "r2"], [], [], (1, 2), ALLM, "all"),
                 (["r1", "r2"], ["s1"], [], (1,), ALLM, "all"),
                 (["r1", "r2", "r3"], [], [], (1,), ALLM, "all"),
                 (["r1", "r2"], ["s1"], [], (2,), ALLM, "cover"),
                 (["r1", "r2"], ["s1"], ["s2"], (1,), ALLM, "cover"),
                 (["r1", "r2", "r3"], ["s1"], ["s2"], (1, 2), ALLM, "cover"),
                 (["r1", "r2"], ["s1", "s3"], ["s2"], (2,), ALLM, "cover")]
        n_random = 300

    def mc_job(name, consts):
        cfg = render_cfg(constants=consts, invariants=MODEL_INVS, symmetry="Symmetry")
        return lambda: run_tlc(wd, "ServeStart", cfg, workers=W, cfg_name=f"SS_{name}.cfg", timeout=1800,
                               coverage=True)

    def dump_job(k, d):
        cfg = render_cfg(constants=_consts(*d[:5]), invariants=[f"Inv_{c}" for c in CLAUSES])
        return lambda: dump_graph(wd, "ServeStart", cfg, workers=W, name=f"ss{k}", timeout=1800)

    results = parallel_tlc([mc_job(n, c) for n, c in mcs] + [dump_job(k, d) for k, d in enumerate(dumps)], max_par=6)
    for (nm, _), r in zip(mcs, results):
        ctx.add_tlc(nm, r)
        require_ok(r, f"ServeStart {nm}")
        if nm == "mc-variants":
            fals: dict[str, set] = {}
            for j in r.json_lines:
                fals.setdefault(j["variant"], set()).update(j["falsified"])
            missing_v = [v for v in WRONG if not fals.get(v)]
            missing_c = set(CLAUSES) - set().union(*fals.values()) if fals else set(CLAUSES)
            if missing_v or missing_c:
                raise MachineryError(f"vacuity guard: variants falsifying nothing {missing_v}; clauses never "
                                     f"falsified {sorted(missing_c)}")
            ctx.extra["clauses_falsified_by_wrong_variants"] = {v: sorted(c) for v, c in fals.items()}
    graphs = results[len(mcs):]
    T["tlc_mc_and_dumps"] = round(time.time() - t0, 1)

    records: list[dict] = []
    metas: list[dict] = []
    quiet = _Quiet().__enter__()
    try:
        # ---------------- 2. Level A
        t1 = time.time()
        stats = []
        complete_all = True
        for d, (r, g) in zip(dumps, graphs):
            reqs, pipes, unixes, maxreqs, modes, how = d
            ctx.add_tlc(f"graph-{len(reqs)}req-{len(pipes)}pipe-{len(unixes)}unix-maxreq{list(maxreqs)}", r)
            require_ok(r, "ServeStart graph dump")
            if how == "all":
                paths, comp = g.all_paths(max_len=64, limit=50000)
                complete_all = complete_all and comp
            else:
                paths = g.edge_cover_paths(ctx.rng, key=_edge_key)
                paths += g.random_paths(ctx.rng, n_random, 64)
            nd = 0
            first = len(records)
            for nodes, labs in paths:
                s0 = g.state(nodes[0])
                rec, drift, executed = replay_path(s0["hookMode"], s0["maxReq"], reqs, pipes, unixes,
                                                   g.path_to_behaviour(nodes, labs))
                ctx.case(("A", rec["mode"], rec["maxReq"], _tkey(rec["ev"])))
                if drift is not None:
                    nd += 1
                    ctx.drift.append({"level": "A", "threads": reqs + pipes + unixes, "mode": rec["mode"],
                                      "schedule": labs, **drift})
                if drift is not None and "schedule control unavailable" in str(drift.get("what", "")):
                    break                       # every further path would only repeat this
                records.append(rec)
                metas.append({"level": "A", "threads": len(reqs + pipes + unixes), "schedule": labs,
                              "executed": executed, "py_drift": drift is not None,
                              "config": {"mode": rec["mode"], "maxReq": rec["maxReq"], "reqs": reqs, "pipes": pipes,
                                         "unixes": unixes}})
            stats.append({"reqs": reqs, "pipe_srvs": pipes, "unix_srvs": unixes, "maxreqs": list(maxreqs), "how": how,
                          "graph_states": r.distinct, "graph_edges": g.n_edges, "paths_replayed": len(paths),
                          "drift": nd})
            if len(records) > first and len(ctx.samples) < 2:
                ctx.sample({"level": "A", "tlc_path": metas[-1]["schedule"], "real_trace": records[-1]})
        ctx.extra["level_A"] = stats
        ctx.extra["level_A_all_paths_complete"] = complete_all
        T["level_A_replay"] = round(time.time() - t1, 1)

        # ---------------- 3. Level B: all real schedules
        t2 = time.time()
        scns = []
        for mode in ALLM:
            scns.append({"mode": mode, "maxReq": 1, "reqs": ["r1", "r2"], "pipes": [], "unixes": [], "pb": None})
            scns.append({"mode": mode, "maxReq": 2, "reqs": ["r1", "r2"], "pipes": [], "unixes": [], "pb": 2})
            scns.append({"mode": mode, "maxReq": 1, "reqs": ["r1", "r2"], "pipes": ["s1"], "unixes": [],
                         "pb": 2 if quick else None})
            if not quick:
                scns.append({"mode": mode, "maxReq": 1, "reqs": ["r1", "r2", "r3"], "pipes": [], "unixes": [],
                             "pb": 2})
                scns.append({"mode": mode, "maxReq": 1, "reqs": ["r1", "r2"], "pipes": ["s1"], "unixes": ["s2"],
                             "pb": 2})
        bstats = []
        b_complete = True
        probe_w = World("ok", 1, ["r1"], [], [])
        probe_w.finish()
        if not probe_w.shimmed:
            # the hook would park while holding a real lock and block every other thread for good
            ctx.drift.append({"level": "B", "what": "RpcServer transport lock is not a scheduler shim lock; "
                              "real-schedule exploration skipped"})
            scns = []
            b_complete = False
        for scn in scns:
            outs, comp, nexec = explore(lambda p, scn=scn: run_real_schedule(scn, p),
                                        limit=150 if quick else 1500, preemption_bound=scn["pb"])
            b_complete = b_complete and comp
            na = 0
            for o in outs:
                ctx.case(("B", scn["mode"], scn["maxReq"], _tkey(o["record"]["ev"])))
                anomaly = bool(o["stuck"] or o["errors"] or not o["shimmed"])
                if anomaly:
                    na += 1
                    ctx.drift.append({"level": "B", "scenario": scn, "schedule": o["schedule"], "stuck": o["stuck"],
                                      "errors": o["errors"], "shimmed": o["shimmed"]})
                records.append(o["record"])
                metas.append({"level": "B", "threads": len(scn["reqs"] + scn["pipes"] + scn["unixes"]),
                              "schedule": o["schedule"], "executed": o["schedule"], "py_drift": anomaly,
                              "config": {k: scn[k] for k in ("mode", "maxReq", "reqs", "pipes", "unixes")}})
            bstats.append({"scenario": scn, "real_schedules": nexec, "exhausted": comp, "anomalies": na})
            if outs and len(ctx.samples) < 4:
                ctx.sample({"level": "B", "scenario": scn, "schedule": outs[-1]["schedule"],
                            "real_trace": outs[-1]["record"]})
        ctx.extra["level_B"] = bstats
        # exhaustive: TLC explored every model completely, every path of the "all" graphs was replayed and every
        # real schedule of the Level-B scenarios (under their preemption bound) was executed; "cover" graphs are
        # sampled (edge-class cover + random walks)
        ctx.exhaustive = complete_all and b_complete
        ctx.extra["sampled_graphs"] = ["+".join(d[0] + d[1] + d[2]) for d in dumps if d[5] != "all"]
        T["level_B_dfs"] = round(time.time() - t2, 1)
    finally:
        quiet.__exit__()

    # ---------------- 4. TLC judges every recorded trace
    t3 = time.time()
    uniq: dict[tuple, int] = {}
    rep: list[int] = []
    for i, rec in enumerate(records):
        k = (rec["mode"], rec["maxReq"], _tkey(rec["ev"]))
        if k not in uniq:
            uniq[k] = len(rep)
            rep.append(i)
    verdicts, bad, inv_hits = judge_traces(ctx, wd, "ServeStartTrace", [records[i] for i in rep], _judge_consts(),
                                           invariants=[f"Inv_{c}" for c in CLAUSES], name="judge",
                                           chunk=3000 if quick else 8000)
    for clause, cex in inv_hits:
        cl = clause.replace("Inv_", "")
        ctx.violation(cl, {"clause": cl, "via": "model-invariant-on-conforming-trace"}, {"counterexample": cex[-6:]})
    n_conform = 0
    for j, i in enumerate(rep):
        meta, rec = metas[i], records[i]
        if verdicts[j] is None:
            n_conform += 1
            ctx.traces_validated += 1
        elif not meta["py_drift"]:
            ctx.drift.append({"level": meta["level"], "what": "TLC: recorded trace is not a behaviour of ServeStart",
                              "matched_steps": verdicts[j], "trace": rec, "schedule": meta["schedule"]})
        for clause in bad.get(j, []):
            ctx.violation(clause, {"clause": clause, "level": meta["level"], "mode": rec["mode"],
                                   "threads": meta["threads"]},
                          {"trace": rec, "schedule": meta["schedule"], "executed": meta["executed"],
                           "config": meta["config"],
                           "conforms_to_model": verdicts[j] is None})
    T["tlc_judge"] = round(time.time() - t3, 1)
    ctx.extra["distinct_traces_judged"] = len(rep)
    ctx.extra["traces_conforming"] = n_conform
    ctx.extra["drift_seen"] = bool(ctx.drift)
    ctx.extra["timing_s"] = T


def _edge_key(src, label, dst):
    act = label.split("(")[0]
    t = label[label.index('"') + 1:label.rindex('"')] if '"' in label else label
    kind = "req" if t.startswith("r") else "srv"
    return (act, kind, src["hookMode"], src["maxReq"], src["bound"], dst["bound"], src["pc"][t], dst["pc"][t],
            len(src["inHook"]) if not isinstance(src["inHook"], (int, str)) else 0,
            sum(1 for p in src["pc"].values() if p == "want"), dst["outcome"][t])


def _tkey(evs: list[dict]) -> str:
    return "|".join(f"{e['e'][:2]}{e['t']}{e.get('k', '')}{e.get('ok', '')}{e.get('res', '')}{e.get('label', '')}"
                    f"@{e['b']}" for e in evs)
