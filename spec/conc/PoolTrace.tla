---------------------------------- MODULE PoolTrace ----------------------------------
(* Batch trace validation for Pool: every recorded execution of the real WorkerPool (real pool, client and server
   code; fake worker processes) must be a behaviour of Pool -- for some choice of the two design switches at each
   step; the observed state decides which -- with the C32 clauses evaluated in every state reached.

   Trace file (IOEnv.TRACE_FILE): JSON array of [mi, rounds, nkeys, rpc0, cpc0, ev |-> <<event, ...>>]; one event per
   scheduler step / environment action:
     a      "B" | "R" | "C" | "Tick" | "Die"       k   borrower or worker number      kind   script run in a BUse step
     lab    park label of the stepping thread after the step
     idle   worker numbers in WorkerPool._idle, oldest first      act, cl   _active, _closed
     ws     per worker created so far: "held" | "idle" | "closed"       al   per worker: process alive
     held   per borrower: the worker it holds (0 = none)
   Registers: 2*tid -> furthest event matched; 2*tid+1 -> clauses violated in a matched state.                *)
EXTENDS Pool, Json, IOUtils, TLCExt
Traces == JsonDeserialize(IOEnv.TRACE_FILE)
VARIABLES tid, l
tvars == <<vars, tid, l>>

BLabel(p) == CASE p = "start" -> "start" [] p = "spawn" -> "spawn" [] p = "use" -> "use"
               [] p \in {"done", "raised"} -> "EXIT" [] OTHER -> "acq"
RLabel(p) == CASE p = "wait" -> "wait" [] p = "reap" -> "acq" [] p = "done" -> "EXIT" [] OTHER -> "?"
CLabel(p) == CASE p = "start" -> "start" [] p = "join" -> "join" [] p = "drain" -> "acq" [] p = "done" -> "EXIT"
               [] OTHER -> "?"

T == Traces[tid]
TraceInit == /\ tid \in 1..Len(Traces) /\ l = 1 /\ Init
             /\ maxIdle = T.mi /\ nRounds = T.rounds /\ nKeys = T.nkeys /\ rpc = T.rpc0 /\ cpc = T.cpc0
Ev == T.ev[l]
Consume == l <= Len(T.ev) /\ l' = l + 1 /\ UNCHANGED tid

Match == /\ idle' = Ev.idle /\ active' = Ev.act /\ closed' = Ev.cl
         /\ nW' = Len(Ev.ws)
         /\ \A w \in 1..Len(Ev.ws) : wst'[w] = Ev.ws[w] /\ alive'[w] = Ev.al[w]
         /\ \A b \in 1..Len(Ev.held) : held'[b] = Ev.held[b]

TraceNext ==
  /\ Consume
  /\ \/ /\ Ev.a = "B" /\ Ev.k \in Borrowers
        /\ \/ BStart(Ev.k) \/ BBorrow(Ev.k) \/ BSpawn(Ev.k) \/ BSpawned(Ev.k) \/ BRetDiscard(Ev.k)
           \/ (\E z \in BOOLEAN : BRetD(Ev.k, z))
           \/ (Ev.kind \in Kinds /\ \E z \in BOOLEAN, im \in IntrModes : BUseD(Ev.k, Ev.kind, z, im))
        /\ BLabel(bpc'[Ev.k]) = Ev.lab
     \/ Ev.a = "R" /\ (RWake \/ RReap) /\ RLabel(rpc') = Ev.lab
     \/ Ev.a = "C" /\ (CStart \/ CJoin \/ CDrain) /\ CLabel(cpc') = Ev.lab
     \/ Ev.a = "Tick" /\ Tick
     \/ Ev.a = "Die" /\ Ev.k \in Workers /\ Die(Ev.k)
  /\ Match
TraceSpec == TraceInit /\ [][TraceNext]_tvars

Bad == {c \in {"ExclusiveOwnership", "IdleBound", "HandoutAliveClean"} :
          \/ (c = "ExclusiveOwnership" /\ ~ExclusiveOwnership)
          \/ (c = "IdleBound" /\ ~IdleBound)
          \/ (c = "HandoutAliveClean" /\ ~HandoutAliveClean)}
Track == /\ TLCSet(2 * tid, IF TLCGet(2 * tid) < l THEN l ELSE TLCGet(2 * tid))
         /\ TLCSet(2 * tid + 1, TLCGet(2 * tid + 1) \cup Bad)
ASSUME \A i \in 1..Len(Traces) : TLCSet(2 * i, 0) /\ TLCSet(2 * i + 1, {})
Verdicts == \A i \in 1..Len(Traces) :
   PrintT("@@J@@" \o ToJson([tid |-> i, matched |-> TLCGet(2 * i) - 1, len |-> Len(Traces[i].ev), bad |-> TLCGet(2 * i + 1)]))
=========================================================================================
