---------------------------------- MODULE Semver ----------------------------------
(* C09 -- the protocol-version gate as a total function.

   A client metadata value is  absent | non-UTF-8 bytes | a string.  Strings are sequences over a
   character-class alphabet; the canonical-semver predicate is defined on the *characters* (not on
   pre-tokenised components) so that every string TLC enumerates is classified by the grammar itself:

       canonical  ::=  num "." num "." num          num ::= "0" | nonzero digit*      (ASCII digits only)

   Alphabet classes (concretised by the driver):  "0" "1" "2"  ASCII digits;  "."  "-"  "+"  " "(space/tab)
   "n" = newline class (LF, CR, VT...)   "d" = a non-ASCII decimal digit (U+0662, U+FF11, ...)   "r" = letter.

   Gate(srv, c): srv = <<>> (service declares no version) never checks; otherwise dispatch iff c is a
   canonical string with the same major and minor.  __describe__ is always dispatched.                    *)
EXTENDS Naturals, Sequences, FiniteSets

CONSTANTS MaxLen,        \* all strings up to this length are enumerated
          Alphabet       \* subset of the character classes used for the exhaustive part

Digits == {"0", "1", "2"}
AllChars == {"0", "1", "2", ".", "-", "+", " ", "n", "d", "r"}
GridNums == {<<"0">>, <<"1">>, <<"2">>, <<"1", "0">>}

\* ---------------------------------------------------------------- grammar
DotPos(s) == {i \in 1..Len(s) : s[i] = "."}
IsNum(p) == /\ Len(p) >= 1
            /\ \A i \in 1..Len(p) : p[i] \in Digits
            /\ (Len(p) = 1 \/ p[1] # "0")
Part(s, a, b) == SubSeq(s, a, b)            \* may be empty
Parts(s) == LET ds == DotPos(s)
                i == CHOOSE x \in ds : \A y \in ds : x <= y
                j == CHOOSE x \in ds : \A y \in ds : x >= y
            IN <<Part(s, 1, i - 1), Part(s, i + 1, j - 1), Part(s, j + 1, Len(s))>>
Canonical(s) == /\ Cardinality(DotPos(s)) = 2
                /\ \A k \in 1..3 : IsNum(Parts(s)[k])
DigitVal(ch) == CASE ch = "0" -> 0 [] ch = "1" -> 1 [] ch = "2" -> 2 [] OTHER -> 0
RECURSIVE NumVal(_)
NumVal(p) == IF p = <<>> THEN 0 ELSE 10 * NumVal(SubSeq(p, 1, Len(p) - 1)) + DigitVal(p[Len(p)])
Version(s) == <<NumVal(Parts(s)[1]), NumVal(Parts(s)[2]), NumVal(Parts(s)[3])>>

\* ---------------------------------------------------------------- case space
RECURSIVE StrUpTo(_)
StrUpTo(n) == IF n = 0 THEN {<<>>}
              ELSE LET prev == StrUpTo(n - 1) IN prev \cup {Append(s, ch) : s \in prev, ch \in Alphabet}
Grid == {a \o <<".">> \o b \o <<".">> \o c : a \in GridNums, b \in GridNums, c \in GridNums}
Insert(s, i, ch) == SubSeq(s, 1, i) \o <<ch>> \o SubSeq(s, i + 1, Len(s))        \* i in 0..Len(s)
Delete(s, i) == SubSeq(s, 1, i - 1) \o SubSeq(s, i + 1, Len(s))
Replace(s, i, ch) == [s EXCEPT ![i] = ch]
MutSeeds == {<<"1", ".", "2", ".", "0">>, <<"1", "0", ".", "0", ".", "2">>, <<"0", ".", "0", ".", "1">>}
Mutants == UNION {   {Insert(s, i, ch) : i \in 0..Len(s), ch \in AllChars}
                \cup {Delete(s, i) : i \in 1..Len(s)}
                \cup {Replace(s, i, ch) : i \in 1..Len(s), ch \in AllChars} : s \in MutSeeds}
Strings == StrUpTo(MaxLen) \cup Grid \cup Mutants
Cases == {[k |-> "absent", s |-> <<>>], [k |-> "nonutf8", s |-> <<>>]} \cup {[k |-> "str", s |-> s] : s \in Strings}

Expected(c) == IF c.k = "str" /\ Canonical(c.s) THEN [canon |-> TRUE, v |-> Version(c.s)]
                                                ELSE [canon |-> FALSE, v |-> <<>>]

\* ---------------------------------------------------------------- the gate
Lt(a, b) == a[1] < b[1] \/ (a[1] = b[1] /\ a[2] < b[2])
Gate(srv, c) ==
  IF srv = <<>> THEN [d |-> TRUE, dir |-> "none"]
  ELSE IF c.k = "absent" THEN [d |-> FALSE, dir |-> "absent"]
  ELSE IF c.k = "nonutf8" THEN [d |-> FALSE, dir |-> "nonutf8"]
  ELSE IF ~Canonical(c.s) THEN [d |-> FALSE, dir |-> "malformed"]
  ELSE LET v == Version(c.s) IN
       IF v[1] = srv[1] /\ v[2] = srv[2] THEN [d |-> TRUE, dir |-> "none"]
       ELSE IF Lt(v, srv) THEN [d |-> FALSE, dir |-> "client_old"]
       ELSE [d |-> FALSE, dir |-> "client_new"]

\* ---------------------------------------------------------------- table sanity (checked by TLC on every case)
\* grammar agrees with the structural definition on the grid; patch never matters; gate is reflexive
GridCanonical(c) == (c.k = "str" /\ c.s \in Grid) => Canonical(c.s)
PatchIgnored(c) == (c.k = "str" /\ Canonical(c.s)) =>
                      LET v == Version(c.s) IN \A p \in {0, 7} : Gate(<<v[1], v[2], p>>, c).d
OnlyCanonicalPasses(c) == \A srv \in {<<0, 0, 0>>, <<1, 2, 0>>, <<10, 0, 2>>} :
                            Gate(srv, c).d => (c.k = "str" /\ Canonical(c.s))
UndeclaredNeverChecks(c) == Gate(<<>>, c).d

\* ---------------------------------------------------------------- judging what the real code did
(* observation o = [srv, meth, transport, dispatched, refused, names_server, names_client, direction, status]
     srv       <<M,m,p>> or <<>> (service declares no version)
     meth      "unary" | "stream" | "describe"
     transport "socket" | "http"
     dispatched   the implementation method ran (describe: the describe payload came back)
     refused      the client saw a protocol_version_mismatch error
     direction    "client_old" | "client_new" | "other" | "none"     parsed from the message
     status       HTTP status (0 on sockets)                                                            *)
Conforms(c, o) ==
  LET g == IF o.meth = "describe" THEN [d |-> TRUE, dir |-> "none"] ELSE Gate(o.srv, c) IN
     {"DispatchIff"     : x \in {1} \cap (IF o.dispatched = g.d THEN {} ELSE {1})}
  \cup {"RefusedTyped"  : x \in {1} \cap (IF (~g.d) => o.refused THEN {} ELSE {1})}
  \cup {"NoSpuriousRefusal" : x \in {1} \cap (IF g.d => ~o.refused THEN {} ELSE {1})}
  \cup {"NamesBoth"     : x \in {1} \cap (IF o.refused => (o.names_server /\ (c.k = "str" => o.names_client)) THEN {} ELSE {1})}
  \cup {"Direction"     : x \in {1} \cap (IF (o.refused /\ g.dir \in {"client_old", "client_new"}) => o.direction = g.dir THEN {} ELSE {1})}
  \cup {"Http400"       : x \in {1} \cap (IF (o.transport = "http" /\ ~g.d) => o.status = 400 THEN {} ELSE {1})}
  \cup {"Http200"       : x \in {1} \cap (IF (o.transport = "http" /\ g.d) => o.status = 200 THEN {} ELSE {1})}
=====================================================================================
