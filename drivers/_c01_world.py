"""C01 world: real Protocol + implementation generated from a Semantics.tla program description, the transport
configurations of the property's product, a script runner that records the client-observable history, and the
projection of that history into the spec's vocabulary (tokens) plus digests of the concrete values.

Owned by the C01 builder.  Copies (not imports) the small pieces it needs from other builders' helpers:
the in-memory ExternalStorage idea from drivers/c30.py and the fake aiohttp session idea from drivers/_fetch_fake.py.
"""
import hashlib
import json
import os
import re
import sys
import threading
import types
import warnings
from dataclasses import dataclass
from typing import ClassVar
from pathlib import Path

os.environ.setdefault("VGI_RPC_SHM_MIN_BATCH_BYTES", "64")     # documented override: let small batches take the shm route
_SHIMS = str(Path(__file__).resolve().parent / "_shims_fault")  # harness stand-in for the uninstalled `tenacity`
if _SHIMS not in sys.path:
    sys.path.append(_SHIMS)

import pyarrow as pa  # noqa: E402

from vgi_rpc.log import Level  # noqa: E402
from vgi_rpc.rpc import (AnnotatedBatch, CallContext, ExchangeState, OutputCollector, ProducerState,  # noqa: E402
                         RpcConnection, RpcError, RpcServer, Stream, make_pipe_pair, make_tcp_pair, make_unix_pair)
from vgi_rpc.utils import ArrowSerializableDataclass  # noqa: E402

warnings.filterwarnings("ignore")

OUT_ONE = pa.schema([pa.field("v", pa.int64())])
OUT_ZERO = pa.schema([])
INP = pa.schema([pa.field("a", pa.int64())])
SERVER_ID = "c01srv000001"
BIG = 3000
META_ROWS = 48
IGNORED_EXTRAS = ("server_id", "request_id")


class AppError(Exception):
    """An application-defined exception class (error type must travel by name)."""


class AppEmpty(Exception):
    """Raised without arguments: an error whose message is empty."""


ERR_CLASSES = {"ValueError": ValueError, "TypeError": TypeError, "AppError": AppError, "RuntimeError": RuntimeError,
               "KeyError": KeyError, "ArrowInvalid": pa.ArrowInvalid, "AppEmpty": AppEmpty}
DEFAULT_TAG = "dflt"


@dataclass
class Hdr(ArrowSerializableDataclass):
    n: int
    tag: str


@dataclass
class Hdr0(ArrowSerializableDataclass):
    """A field-less header: serialises to a zero-column one-row batch."""


# ---------------------------------------------------------------------------------------------- concretisation
def call_kwargs(args: str, x: int) -> dict:
    """How a call of shape args passes its arguments (x only / tag given / opt given)."""
    if args == "xt":
        return {"x": x, "tag": f"t{x % 97}"}
    if args == "xo":
        return {"x": x, "opt": x % 89}
    return {"x": x}


def arg_echo(tag: str, opt) -> str:
    """What every observable of a call echoes about the arguments the body received."""
    return f"{tag}|{opt}"


def expected_echo(args: str, x: int) -> str:
    kw = call_kwargs(args, x)
    return arg_echo(kw.get("tag", DEFAULT_TAG), kw.get("opt"))


def hdr_value(kind: str, x: int, echo: str):
    if kind == "empty":
        return Hdr0()
    return Hdr(n=x, tag=f"header-of-{x}-{echo}-" + "h" * 90)


def result_value(res: str, x: int, echo: str):
    if res == "int":
        return x * 7 + 1 + len(echo)
    if res == "big":
        return (f"r{x}-{echo}-" * (BIG // 6 + 1))[:BIG]
    return None


def log_text(x: int, s: int, p: int, echo: str) -> str:
    return f"log s{s}p{p} x={x} a={echo}"


def log_extras(x: int, s: int, p: int) -> dict:
    return {"k": f"{s}.{p}", "x": str(x)}


def err_args(etype: str, x: int, s: int, echo: str) -> tuple:
    """Constructor arguments of the raised exception: short text / long text / several lines / nothing."""
    base = f"boom x={x} s={s} a={echo} é"
    if etype == "AppEmpty":
        return ()
    if etype == "AppError":
        return (base + " " + "L" * 1500,)
    if etype == "ArrowInvalid":
        return (base + "\nsecond line\n\tthird line",)
    return (base,)


def input_shape(a: int) -> tuple[int, str | None]:
    """Rows and application metadata of the a-th exchange input (1 row, 2 rows + metadata, 0 rows, ...)."""
    return a % 3, (f"i{a}" if a % 2 == 0 else None)


def input_code(rows: int, md: str | None) -> int:
    return rows * 100 + (int(md[1:]) if md else 0)


def data_batch(cols: str, kind: str, x: int, s: int, a: int, echo: str):
    """(RecordBatch, application metadata or None) emitted by step s of a call with argument x (a = input code)."""
    md = None
    if kind == "plain":
        n = 1 if cols == "one" else s + 1
        vals = [x * 100000 + s * 1000 + a]
    elif kind == "meta":
        n = META_ROWS if cols == "one" else s + 2
        vals = [x * 100000 + s * 1000 + a + i for i in range(n)]
        md = {"app": f"s{s}", "x": str(x), "arg": echo, "in": str(a)}
    elif kind == "zrow":
        n, vals = 0, []
        md = {"app": f"z{s}", "x": str(x)}
    else:  # zbare: zero rows and no metadata at all
        n, vals = 0, []
    if cols == "one":
        b = pa.RecordBatch.from_pydict({"v": vals}, schema=OUT_ONE)
    else:
        b = pa.RecordBatch.from_struct_array(pa.array([{}] * n, pa.struct([])))
    return b, md


# ---------------------------------------------------------------------------------------------- service side
REG: dict[int, dict] = {}       # sid -> method description (the step scripts live here, the state only carries sid/pos)
_SID = [0]
_FIN = {"pre": [], "emit": "none", "post": [], "end": "finish", "err": ""}
_PLAIN = {"pre": [], "emit": "plain", "post": [], "end": "cont", "err": ""}


def _step_at(m: dict, s: int) -> dict:
    if s <= len(m["steps"]):
        return m["steps"][s - 1]
    return _FIN if m["kind"] == "prod" else _PLAIN


def _run_step(sid: int, x: int, echo: str, s: int, a: int, out: OutputCollector, ctx: CallContext) -> None:
    m = REG[sid]
    st = _step_at(m, s)
    p = 0
    for lvl in st["pre"]:
        p += 1
        ctx.client_log(Level[lvl], log_text(x, s, p, echo), **log_extras(x, s, p))
    if st["emit"] != "none":
        b, md = data_batch(m["cols"], st["emit"], x, s, a, echo)
        out.emit(b, metadata=md)
    for lvl in st["post"]:
        p += 1
        ctx.client_log(Level[lvl], log_text(x, s, p, echo), **log_extras(x, s, p))
    if st["end"] == "finish":
        out.finish()
    elif st["end"] == "raise":
        raise ERR_CLASSES[st["err"]](*err_args(st["err"], x, s, echo))


@dataclass
class PState(ProducerState):
    """Scripted producer state: survives HTTP state tokens because it is just (script id, arguments, position)."""

    sid: int
    x: int
    echo: str
    pos: int = 0

    def produce(self, out: OutputCollector, ctx: CallContext) -> None:
        self.pos += 1
        _run_step(self.sid, self.x, self.echo, self.pos, 0, out, ctx)


@dataclass
class XState(ExchangeState):
    sid: int
    x: int
    echo: str
    pos: int = 0

    def exchange(self, input: AnnotatedBatch, out: OutputCollector, ctx: CallContext) -> None:  # noqa: A002
        self.pos += 1
        md = (input.custom_metadata or {}).get(b"in")
        a = input_code(input.batch.num_rows, md.decode() if md is not None else None)
        _run_step(self.sid, self.x, self.echo, self.pos, a, out, ctx)


@dataclass
class CallB(ArrowSerializableDataclass):
    """Call state: the immutable half of a stream (which script, which arguments)."""

    sid: int
    echo: str


@dataclass
class PStateB(ProducerState):
    """Producer whose immutable half lives in call state; the framework attaches it through bind_call_state()."""

    CALL_STATE_TYPE: ClassVar[type] = CallB
    x: int
    pos: int = 0

    def bind_call_state(self, call_state) -> None:
        self._call = call_state

    def produce(self, out: OutputCollector, ctx: CallContext) -> None:
        self.pos += 1
        _run_step(self._call.sid, self.x, self._call.echo, self.pos, 0, out, ctx)


@dataclass
class XStateB(ExchangeState):
    CALL_STATE_TYPE: ClassVar[type] = CallB
    x: int
    pos: int = 0

    def bind_call_state(self, call_state) -> None:
        self._call = call_state

    def exchange(self, input: AnnotatedBatch, out: OutputCollector, ctx: CallContext) -> None:  # noqa: A002
        self.pos += 1
        md = (input.custom_metadata or {}).get(b"in")
        a = input_code(input.batch.num_rows, md.decode() if md is not None else None)
        _run_step(self._call.sid, self.x, self._call.echo, self.pos, a, out, ctx)


def _body_logs(sid: int, x: int, echo: str, ctx: CallContext) -> None:
    for p, lvl in enumerate(REG[sid]["ilogs"], 1):
        ctx.client_log(Level[lvl], log_text(x, 0, p, echo), **log_extras(x, 0, p))


def _unary(sid: int, x: int, tag: str, opt, ctx: CallContext):
    m = REG[sid]
    echo = arg_echo(tag, opt)
    _body_logs(sid, x, echo, ctx)
    if m["iend"] == "raise":
        raise ERR_CLASSES[m["ierr"]](*err_args(m["ierr"], x, 0, echo))
    if m["iend"] == "none":
        return None
    return result_value(m["res"], x, echo)


def _init(sid: int, x: int, tag: str, opt, ctx: CallContext):
    m = REG[sid]
    echo = arg_echo(tag, opt)
    _body_logs(sid, x, echo, ctx)
    if m["iend"] == "raise":
        raise ERR_CLASSES[m["ierr"]](*err_args(m["ierr"], x, 0, echo))
    schema = OUT_ONE if m["cols"] == "one" else OUT_ZERO
    hdr = hdr_value(m["hdr"], x, echo) if m["hdr"] != "none" else None
    if m.get("cs"):
        call = CallB(sid=sid, echo=echo)
        if m["kind"] == "prod":
            return Stream(output_schema=schema, state=PStateB(x=x), header=hdr, call_state=call)
        return Stream(output_schema=schema, state=XStateB(x=x), input_schema=INP, header=hdr, call_state=call)
    if m["kind"] == "prod":
        return Stream(output_schema=schema, state=PState(sid=sid, x=x, echo=echo), header=hdr)
    return Stream(output_schema=schema, state=XState(sid=sid, x=x, echo=echo), input_schema=INP, header=hdr)


def method_key(m: dict) -> str:
    return json.dumps(m, sort_keys=True)


def program_of(calls: list[dict]) -> tuple[list[dict], list[str]]:
    """Distinct methods of a script in order of first use, and the method name each call uses."""
    methods, names, seen = [], [], {}
    for c in calls:
        k = method_key(c["m"])
        if k not in seen:
            seen[k] = f"m{len(methods) + 1}"
            methods.append(c["m"])
        names.append(seen[k])
    return methods, names


def build_program(methods: list[dict], first_sid: int | None = None):
    """Generate Protocol + implementation classes for a program (list of method records of Semantics.tla).
    Every method is declared m(x: int, tag: str = DEFAULT_TAG, opt: int | None = None)."""
    if first_sid is None:
        first_sid = _SID[0] + 1
        _SID[0] += len(methods)
    proto, impl = [], []
    sig = f"self, x: int, tag: str = {DEFAULT_TAG!r}, opt: int | None = None"
    for i, m in enumerate(methods):
        sid = first_sid + i
        REG[sid] = m
        n = f"m{i + 1}"
        # a body that never logs does not ask for a CallContext at all
        ctx_param, ctx_arg = (", *, ctx: CallContext", "ctx") if m["ilogs"] else ("", "None")
        if m["kind"] == "unary":
            ret = {"int": "int", "big": "str", "void": "None", "opt": "int | None"}[m["res"]]
            proto.append(f"    def {n}({sig}) -> {ret}: ...")
            impl.append(f"    def {n}({sig}{ctx_param}) -> {ret}:\n        return _unary({sid}, x, tag, opt, {ctx_arg})")
        else:
            base = "ProducerState" if m["kind"] == "prod" else "ExchangeState"
            st = "PState" if m["kind"] == "prod" else "XState"
            if m.get("cs"):
                st = f"{st} | {st}B"          # a union of state classes: the HTTP cursor token carries the class tag
            h = {"none": "", "full": ", Hdr", "empty": ", Hdr0"}[m["hdr"]]
            proto.append(f"    def {n}({sig}) -> Stream[{base}{h}]: ...")
            impl.append(f"    def {n}({sig}{ctx_param}) -> Stream[{st}{h}]:\n        return _init({sid}, x, tag, opt, {ctx_arg})")
    code = ("from typing import Protocol\n"
            "class C01Svc(Protocol):\n" + "\n".join(proto) + "\n"
            "class C01Impl:\n" + "\n".join(impl) + "\n")
    ns = {"Stream": Stream, "ProducerState": ProducerState, "ExchangeState": ExchangeState, "Hdr": Hdr, "Hdr0": Hdr0,
          "CallContext": CallContext, "PState": PState, "XState": XState, "PStateB": PStateB, "XStateB": XStateB,
          "_unary": _unary, "_init": _init}
    exec(compile(code, "<c01-program>", "exec"), ns)  # noqa: S102 - generated from the TLC-emitted program description
    return ns["C01Svc"], ns["C01Impl"](), code


WORKER_SRC = """import json, sys
from drivers import _c01_world as W
from vgi_rpc.rpc import RpcServer, serve_stdio
from vgi_rpc.utils import IpcValidation
proto, impl, _ = W.build_program(json.load(open(sys.argv[1])), first_sid=1)
knobs = json.loads(sys.argv[2]) if len(sys.argv) > 2 else {}
serve_stdio(RpcServer(proto, impl, server_id=W.SERVER_ID, enable_describe=bool(knobs.get("describe")),
                      ipc_validation=IpcValidation(knobs.get("val", "full"))))
"""


# ---------------------------------------------------------------------------------------------- external storage
_OID = [0]


class MemStorage:
    """In-memory ExternalStorage (fixed-width object ids so response sizes do not depend on history)."""

    def __init__(self) -> None:
        self.objects: dict[str, list] = {}
        self.n = 0

    def upload(self, data: bytes, schema: pa.Schema, *, content_encoding: str | None = None) -> str:
        self.n += 1
        _OID[0] += 1                       # ids are unique across stores (several workers may be live at once)
        oid = f"o{_OID[0]:07d}"
        self.objects[oid] = [bytes(data), content_encoding]
        return f"https://store.test/bucket/{oid}?X-Sig=SIG{oid}"


class _FakeContent:
    def __init__(self, body: bytes) -> None:
        self._b, self._pos = body, 0

    async def read(self, n: int = -1) -> bytes:
        if n is None or n < 0:
            n = len(self._b)
        out = self._b[self._pos:self._pos + n]
        self._pos += len(out)
        return out

    async def _iter(self, n: int):
        while True:
            b = await self.read(n)
            if not b:
                return
            yield b

    def iter_chunked(self, n: int):
        return self._iter(n)


class _FakeResponse:
    def __init__(self, method: str, url: str, status: int, headers: dict, body: bytes, req_headers) -> None:
        from multidict import CIMultiDict

        self.status, self.reason, self.method = status, "OK" if status < 400 else "Not Found", method
        self.headers = CIMultiDict(headers)
        self.request_info = types.SimpleNamespace(headers=CIMultiDict(req_headers or {}), url=url, method=method)
        self.content = _FakeContent(body)

    def release(self) -> None:
        pass

    def close(self) -> None:
        pass


class _FakeSession:
    """aiohttp.ClientSession stand-in serving MemStorage objects (HEAD / GET / ranged GET), no network."""

    def __init__(self, stores) -> None:
        self._stores = stores

    def _find(self, url: str):
        m = re.search(r"/bucket/(o\d+)", url)
        for st in self._stores():
            if m and m.group(1) in st.objects:
                return st.objects[m.group(1)]
        return None

    async def _request(self, method: str, url, headers=None, allow_redirects: bool = True, **kw):
        url = str(url)
        obj = self._find(url)
        if obj is None:
            return _FakeResponse(method, url, 404, {}, b"", headers)
        data, enc = obj
        h = {"Accept-Ranges": "bytes"}
        if enc:
            h["Content-Encoding"] = enc
        rng = (headers or {}).get("Range")
        if method == "HEAD":
            return _FakeResponse(method, url, 200, {**h, "Content-Length": str(len(data))}, b"", headers)
        if rng:
            mm = re.match(r"bytes=(\d+)-(\d+)$", rng)
            a, b = int(mm[1]), int(mm[2])
            body = data[a:b + 1]
            return _FakeResponse(method, url, 206, {**h, "Content-Range": f"bytes {a}-{a + len(body) - 1}/{len(data)}"}, body, headers)
        return _FakeResponse(method, url, 200, {**h, "Content-Length": str(len(data))}, data, headers)

    async def head(self, url, **kw):
        return await self._request("HEAD", url, **kw)

    async def get(self, url, **kw):
        return await self._request("GET", url, **kw)

    async def close(self) -> None:
        pass


_LIVE_STORES: list[MemStorage] = []
_PATCHED = [False]


def install_fetch_fake() -> dict:
    """Route vgi_rpc.external_fetch's HTTP session to the in-memory stores; make the tenacity stand-in's waits free."""
    import tenacity

    from vgi_rpc import external_fetch as ef

    info = {"tenacity": "real package" if not getattr(tenacity, "__file__", "").startswith(_SHIMS) else "harness stand-in"}
    if info["tenacity"] == "harness stand-in":
        tenacity.sleep = lambda s: None
    if not _PATCHED[0]:
        async def create(timeout):
            return _FakeSession(lambda: list(_LIVE_STORES))

        ef._create_session = create
        _PATCHED[0] = True
    return info


_LIVE_STORES: list[MemStorage] = []
_PATCHED = [False]


def install_fetch_fake() -> dict:
    """Route vgi_rpc.external_fetch's HTTP session to the in-memory stores; make the tenacity stand-in's waits free."""
    import tenacity

    from vgi_rpc import external_fetch as ef

    info = {"tenacity": "real package" if not getattr(tenacity, "__file__", "").startswith(_SHIMS) else "harness stand-in"}
    if info["tenacity"] == "harness stand-in":
        tenacity.sleep = lambda s: None
    if not _PATCHED[0]:
        async def create(timeout):
            return _FakeSession(lambda: list(_LIVE_STORES))

        ef._create_session = create
        _PATCHED[0] = True
    return info


# ---------------------------------------------------------------------------------------------- configurations
SOCKETS = ("pipe", "unix", "tcp", "shm")
LARGE_CAP = 8 * 1024 * 1024
EXT_THRESHOLD = 64
TINY_SLACK = 128
SMALL_SHM = 65536 + 256     # allocator header + 256 bytes: a batch with rows does not fit, it falls back to the pipe
DEFAULT_KNOBS = {"val": "full", "describe": False, "sockext": "off", "shmseg": "large", "sticky": False, "cache": "warm",
                 "level": 3, "extz": "none", "api": "iter", "cside": "both"}


def split_cfg(cfg: str) -> tuple[str, dict]:
    """'http:none:zstd:low|val=none,sticky=1' -> ('http:none:zstd:low', knobs with defaults filled in)."""
    base, _, tail = cfg.partition("|")
    knobs = dict(DEFAULT_KNOBS)
    for kv in filter(None, tail.split(",")):
        k, v = kv.split("=")
        d = DEFAULT_KNOBS[k]
        knobs[k] = (v == "1") if isinstance(d, bool) else int(v) if isinstance(d, int) else v
    return base, knobs


def join_cfg(base: str, knobs: dict) -> str:
    tail = ",".join(f"{k}={int(v) if isinstance(v, bool) else v}" for k, v in sorted(knobs.items()) if DEFAULT_KNOBS[k] != v)
    return base + ("|" + tail if tail else "")


def _validation(knobs: dict):
    from vgi_rpc.utils import IpcValidation

    return IpcValidation(knobs["val"])


def _ext_pair(knobs_ext: str, extz: str):
    """(storage, server config, client config) for an externalization setting."""
    from vgi_rpc.external import ClientExternalConfig, Compression, ExternalLocationConfig

    if knobs_ext != "low":
        return None, None, None
    storage = MemStorage()
    _LIVE_STORES.append(storage)
    fc = _shared_fetch_config()
    comp = None if extz == "none" else Compression(algorithm=extz, level=3)
    server_ext = ExternalLocationConfig(storage=storage, externalize_threshold_bytes=EXT_THRESHOLD, fetch_config=fc, compression=comp)
    return storage, server_ext, ClientExternalConfig(fetch_config=fc)


class _RecordingClient:
    """Wraps the in-process HTTP client(s): records (path, status, body size) of every response; optionally restricts
    the codecs the client accepts (a client that only speaks gzip); with several inner clients (workers sharing the
    token key behind a load balancer) consecutive requests go to alternating workers."""

    def __init__(self, inners: list, accept: str | None = None) -> None:
        self._inners = inners
        self.prefix = inners[0].prefix
        self.sizes: list[tuple[str, int, int]] = []
        self.encodings: set[str] = set()
        self._accept = accept
        self._n = 0
        self.want_packing = False
        self.packing: list[dict] = []

    def _pick(self):
        self._n += 1
        return self._inners[self._n % len(self._inners)]

    def post(self, url: str, *, content: bytes, headers: dict):
        if self._accept is not None and "Accept-Encoding" in headers:
            headers = {**headers, "Accept-Encoding": self._accept}
        if len(self.sizes) > 400:
            raise RuntimeError("C01 harness: runaway request loop (more than 400 HTTP requests for one script)")
        r = self._pick().post(url, content=content, headers=headers)
        self.sizes.append((url, r.status_code, len(r.content)))
        if self.want_packing and (url.endswith("/init") or url.endswith("/exchange")):
            self.packing.append(response_packing(r.content))
        enc = {k.lower(): v for k, v in r.headers.items()}.get("content-encoding")
        self.encodings.add(enc or "identity")
        return r

    def get(self, url: str, **kw):
        return self._inners[0].get(url, **kw)

    def options(self, url: str, **kw):
        return self._inners[0].options(url, **kw)

    def delete(self, url: str, **kw):
        for c in self._inners[1:]:
            c.delete(url, **kw)
        return self._inners[0].delete(url, **kw)

    def put(self, url: str, **kw):
        return self._inners[0].put(url, **kw)

    def close(self) -> None:
        pass


def capped_max(sizes, methods: list[dict]) -> int:
    """Largest response that the server hard-caps (unary results, exchange outputs), uncompressed."""
    kinds = {f"m{i + 1}": m["kind"] for i, m in enumerate(methods)}
    best = 0
    for url, status, n in sizes:
        parts = url.strip("/").split("/")
        k = kinds.get(parts[0])
        if status == 200 and (k == "unary" or (k == "exch" and parts[-1] == "exchange")):
            best = max(best, n)
    return best


def landmarks(call: dict, x: int) -> list[int]:
    """Packing landmarks of a producer call (Semantics!Packings): position of the /init turn's IPC stream after the
    first j steps, for every j whose step continues the stream.  Written with the library's own writers, batch for
    batch what RpcServer puts on the wire (init logs with request id, step logs, data batches with their metadata)."""
    from vgi_rpc.log import Message
    from vgi_rpc.metadata import encode_metadata
    from vgi_rpc.utils import empty_batch, new_ipc_stream
    from io import BytesIO

    m = call["m"]
    echo = expected_echo(call.get("args", "x"), x)
    schema = OUT_ONE if m["cols"] == "one" else OUT_ZERO
    buf = BytesIO()
    out: list[int] = []

    def log(w, lvl, s, p, sink: bool) -> None:
        md = Message(Level[lvl], log_text(x, s, p, echo), **log_extras(x, s, p)).add_to_metadata()
        md["vgi_rpc.server_id"] = SERVER_ID
        if sink:
            md["vgi_rpc.request_id"] = "0" * 16
        w.write_batch(empty_batch(schema), custom_metadata=encode_metadata(md))

    with new_ipc_stream(buf, schema) as w:
        if m["hdr"] == "none":              # with a header the method body's logs travel in the header stream
            for p, lvl in enumerate(m["ilogs"], 1):
                log(w, lvl, 0, p, True)
        for s, st in enumerate(m["steps"], 1):
            if st["end"] != "cont" or st["emit"] == "none":
                break
            p = 0
            for lvl in st["pre"]:
                p += 1
                log(w, lvl, s, p, False)
            b, md = data_batch(m["cols"], st["emit"], x, s, 0, echo)
            if md:
                w.write_batch(b, custom_metadata=encode_metadata(md))
            else:
                w.write_batch(b)
            for lvl in st["post"]:
                p += 1
                log(w, lvl, s, p, False)
            out.append(buf.tell())
    return out


def response_packing(content: bytes) -> dict:
    """What one HTTP response of a stream endpoint carries: data batches, error, continuation token (observation of
    the packing that was actually reached; not part of the judged history)."""
    from io import BytesIO

    from pyarrow import ipc

    bio = BytesIO(content)
    res = {"data": 0, "err": False, "token": False}
    for _ in range(2):                      # header stream (if any) + output stream: the last one counts
        try:
            r = ipc.open_stream(bio)
            res = {"data": 0, "err": False, "token": False}
            while True:
                try:
                    b, cm = r.read_next_batch_with_custom_metadata()
                except StopIteration:
                    break
                keys = dict(cm.items()) if cm is not None else {}
                if b"vgi_rpc.log_level" in keys:
                    if keys[b"vgi_rpc.log_level"] == b"EXCEPTION":
                        res["err"] = True
                elif b.num_rows == 0 and b"vgi_rpc.stream_state#b64" in keys:
                    res["token"] = True
                else:
                    res["data"] += 1
        except Exception:  # noqa: BLE001
            break
        if bio.tell() >= len(content):
            break
    return res


# ---------------------------------------------------------------------------------------------- history recording
def _digest(x) -> str:
    return hashlib.sha1(json.dumps(x, sort_keys=True, default=str).encode()).hexdigest()[:12]


def _user_md(cm) -> dict:
    if cm is None:
        return {}
    return {k.decode(): v.decode() for k, v in cm.items() if not k.startswith(b"vgi_rpc.")}


class Recorder:
    """Collects what the client observes for one call and projects it into Semantics.tla's vocabulary."""

    def __init__(self) -> None:
        self.calls: list[dict] = []
        self.cur: dict | None = None

    def begin(self, call: dict, x: int) -> None:
        self.cur = {"m": call["m"], "x": x, "echo": expected_echo(call.get("args", "x"), x), "last_s": 0,
                    "res": [], "hdr": "none", "data": [], "logs": [], "err": [], "stopped": False,
                    "raw": {"res": "", "hdr": "", "data": [], "logs": [], "err": ""}, "crash": ""}
        self.calls.append(self.cur)

    # -- log callback (may fire at any time during a call, including while closing)
    def on_log(self, msg) -> None:
        c = self.cur
        if c is None:
            return
        extra = {k: v for k, v in (msg.extra or {}).items() if k not in IGNORED_EXTRAS}
        lvl = msg.level.value
        raw = [lvl, msg.message, extra]
        tok = ["raw", "log", len(c["logs"])]
        mm = re.fullmatch(r"log s(\d+)p(\d+) x=(\d+) a=(.*)", msg.message)
        if mm and int(mm[3]) == c["x"] and mm[4] == c["echo"]:
            s, p = int(mm[1]), int(mm[2])
            if extra == log_extras(c["x"], s, p):
                tok = ["log", lvl, s, p]
        c["logs"].append(tok)
        c["raw"]["logs"].append(_digest(raw))

    def result(self, value) -> None:
        c = self.cur
        m = c["m"]
        want = result_value(m["res"], c["x"], c["echo"])
        ok = value == want and type(value) is type(want)
        c["res"] = [m["res"]] if ok else ["raw"]
        c["raw"]["res"] = _digest(repr(value))

    def header(self, h) -> None:
        c = self.cur
        if h is None:
            return
        want = hdr_value(c["m"]["hdr"], c["x"], c["echo"]) if c["m"]["hdr"] != "none" else None
        c["hdr"] = "ok" if want is not None and h == want and type(h).__name__ == type(want).__name__ else "bad"
        c["raw"]["hdr"] = _digest(repr(h))

    def data(self, ab: AnnotatedBatch) -> None:
        c = self.cur
        m = c["m"]
        b = ab.batch
        md = _user_md(ab.custom_metadata)
        raw = {"schema": str(b.schema), "rows": b.num_rows, "cols": b.to_pydict(), "md": md}
        tok = ["raw", "data", len(c["data"])]
        for s in range(c["last_s"] + 1, len(m["steps"]) + 6):          # batches come in step order
            st = _step_at(m, s)
            if st["emit"] == "none":
                continue
            a = input_code(*input_shape(s)) if m["kind"] == "exch" else 0
            eb, emd = data_batch(m["cols"], st["emit"], c["x"], s, a, c["echo"])
            if b.schema == eb.schema and b.num_rows == eb.num_rows and b.to_pydict() == eb.to_pydict() and md == (emd or {}):
                tok = ["data", s, st["emit"]]
                c["last_s"] = s
                break
        c["data"].append(tok)
        c["raw"]["data"].append(_digest(raw))
        try:
            ab.release()
        except Exception:  # noqa: BLE001
            pass

    def error(self, e: RpcError) -> None:
        c = self.cur
        m = c["m"]
        msg = e.error_message
        tok, s = "raw", 0
        mm = re.search(r"boom x=(\d+) s=(\d+) a=", msg)
        if mm and int(mm[1]) == c["x"]:
            want = err_args(e.error_type, c["x"], int(mm[2]), c["echo"])
            if want and want[0] in msg:
                tok, s = "boom", int(mm[2])
        elif e.error_type == "AppEmpty" and msg.replace("AppEmpty", "").strip(" :") == "":
            raising = [i + 1 for i, st in enumerate(m["steps"]) if st["end"] == "raise" and st["err"] == "AppEmpty"]
            tok, s = "boom", (raising[0] if raising else 0)
        elif "No data batch was emitted" in msg:
            tok = "nodata"
        elif "finish() is not allowed on exchange streams" in msg:
            tok = "finish_not_allowed"
        elif "expected a non-None return value but got None" in msg:
            tok = "none_result"
        c["err"] = ["err", e.error_type, tok, s]
        c["raw"]["err"] = _digest([e.error_type, msg])

    def stop(self) -> None:
        self.cur["stopped"] = True

    def crash(self, what: str) -> None:
        self.cur["crash"] = what
        self.cur["err"] = ["raw", "crash", what[:80], 0]
        self.cur["raw"]["err"] = _digest(what)

    def export(self) -> list[dict]:
        return [{k: c[k] for k in ("res", "hdr", "data", "logs", "err", "stopped", "raw")} for c in self.calls]


def _exchange_input(a: int) -> AnnotatedBatch:
    rows, md = input_shape(a)
    b = pa.RecordBatch.from_pydict({"a": [a] * rows}, schema=INP)
    return AnnotatedBatch(batch=b, custom_metadata=pa.KeyValueMetadata({"in": md}) if md else None)


def run_calls(px, calls: list[dict], names: list[str], xs: list[int], rec: Recorder, http: bool, api: str = "iter") -> None:
    """Execute a call script through a typed proxy (socket or HTTP) and record the client-observable history.
    api="token" (HTTP producers): consume through next_with_token() and resume a fresh session from every token."""
    for call, name, x in zip(calls, names, xs):
        m = call["m"]
        rec.begin(call, x)
        kw = call_kwargs(call.get("args", "x"), x)
        try:
            if m["kind"] == "unary":
                try:
                    rec.result(getattr(px, name)(**kw))
                except RpcError as e:
                    rec.error(e)
                continue
            try:
                sess = getattr(px, name)(**kw)
            except RpcError as e:
                rec.error(e)
                continue
            rec.header(sess.header)
            token_api = http and api == "token" and m["kind"] == "prod"
            state = {"it": None, "n": 0, "sess": sess}

            def tick() -> bool:
                """One tick / exchange; True when the stream ended."""
                try:
                    if m["kind"] == "exch":
                        state["n"] += 1
                        ab = state["sess"].exchange(_exchange_input(state["n"]))
                    elif token_api:
                        ab, tok = state["sess"].next_with_token()
                        if ab is None:
                            raise StopIteration
                        if tok is not None:
                            state["sess"] = px.resume_stream(name, tok, output_schema=ab.batch.schema)
                    elif http:
                        if state["it"] is None:
                            state["it"] = iter(state["sess"])
                        ab = next(state["it"])
                    else:
                        ab = state["sess"].tick()
                except StopIteration:
                    rec.stop()
                    return True
                except RpcError as e:
                    rec.error(e)
                    return True
                rec.data(ab)
                return False

            ended = False
            for op in call["ops"]:
                if ended:
                    break
                if op == "t":
                    ended = tick()
                elif op == "i":
                    if http or state["it"] is not None:
                        while not ended:
                            ended = tick()
                    else:
                        try:
                            for ab in state["sess"]:
                                rec.data(ab)
                            rec.stop()
                        except RpcError as e:
                            rec.error(e)
                        ended = True
                elif op == "c":
                    state["sess"].close()
                    ended = True
                elif op == "x":
                    state["sess"].cancel()
                    ended = True
            if not ended:
                state["sess"].close()
        except Exception as e:  # noqa: BLE001 - anything else the client lets escape is part of the history
            rec.crash(f"{type(e).__name__}: {e}")
    rec.cur = None


class _Timeout(BaseException):
    pass


def _with_watchdog(fn, timeout: float):
    """Run fn with a deadline: ("ok", value) | ("hung", None) | ("raised", exception).  In a process's main thread
    the deadline is an interval timer (no extra thread: the worker processes run thousands of scripts); elsewhere
    a watchdog thread."""
    import signal

    if threading.current_thread() is threading.main_thread():
        armed = [True]

        def on_alarm(signum, frame):
            if armed[0]:
                raise _Timeout()

        old = signal.signal(signal.SIGALRM, on_alarm)
        # repeating: an exception raised from a signal handler is swallowed when it lands in a destructor or a
        # weakref callback ("Exception ignored in ..."), so the deadline keeps firing until it gets through
        signal.setitimer(signal.ITIMER_REAL, timeout, 0.5)
        try:
            try:
                return "ok", fn()
            finally:
                armed[0] = False            # from here on a late tick is a no-op
        except _Timeout:
            return "hung", None
        except BaseException as e:  # noqa: BLE001
            return "raised", e
        finally:
            signal.setitimer(signal.ITIMER_REAL, 0)
            signal.signal(signal.SIGALRM, old)
    box: dict = {}

    def body() -> None:
        try:
            box["v"] = fn()
        except BaseException as e:  # noqa: BLE001
            box["e"] = e

    th = threading.Thread(target=body, daemon=True)
    th.start()
    th.join(timeout)
    if th.is_alive():
        return "hung", None
    if "e" in box:
        return "raised", box["e"]
    return "ok", box.get("v")


def run_socket(cfg: str, proto, impl, calls, names, xs, timeout: float = 10.0) -> dict:
    """pipe / unix / tcp / shm (+ knobs): a fresh connection against RpcServer.serve on a thread."""
    from vgi_rpc.rpc import ShmPipeTransport
    from vgi_rpc.shm import ShmSegment

    kind, knobs = split_cfg(cfg)
    shm = None
    if kind == "shm":
        shm = ShmSegment.create(SMALL_SHM if knobs["shmseg"] == "small" else 1 << 20)
        cp, sp = make_pipe_pair()
        ct, st = ShmPipeTransport(cp, shm), ShmPipeTransport(sp, shm)
    else:
        ct, st = {"pipe": make_pipe_pair, "unix": make_unix_pair, "tcp": make_tcp_pair}[kind]()
    storage, server_ext, client_ext = _ext_pair(knobs["sockext"], knobs["extz"])
    server = RpcServer(proto, impl, server_id=SERVER_ID, external_location=server_ext, ipc_validation=_validation(knobs),
                       enable_describe=knobs["describe"])
    died: list = []

    def serve() -> None:
        try:
            server.serve(st)
        except BaseException as e:  # noqa: BLE001
            died.append(repr(e))

    sth = threading.Thread(target=serve, daemon=True)
    sth.start()
    rec = Recorder()

    def client() -> None:
        with RpcConnection(proto, ct, on_log=rec.on_log, external_location=client_ext, ipc_validation=_validation(knobs)) as px:
            run_calls(px, calls, names, xs, rec, http=False)

    status, exc = _with_watchdog(client, timeout)
    if storage is not None:
        _LIVE_STORES.remove(storage)
    if status == "ok":
        sth.join(2.0)
        for t in (st,):
            try:
                t.close()
            except Exception:  # noqa: BLE001
                pass
    if shm is not None and status == "ok":
        try:
            shm.unlink()
            shm.close()
        except Exception:  # noqa: BLE001
            pass
    return {"calls": rec.export(), "status": status, "exc": repr(exc) if exc else "", "server_died": list(died),
            "externalized": storage.n if storage is not None else 0}


def run_subprocess(cfg: str, worker: Path, program_file: Path, proto, calls, names, xs, timeout: float = 30.0) -> dict:
    from vgi_rpc.rpc import StderrMode, SubprocessTransport

    _, knobs = split_cfg(cfg)
    rec = Recorder()
    tr = SubprocessTransport([sys.executable, str(worker), str(program_file), json.dumps(knobs)], stderr=StderrMode.DEVNULL)

    def client() -> None:
        with RpcConnection(proto, tr, on_log=rec.on_log, ipc_validation=_validation(knobs)) as px:
            run_calls(px, calls, names, xs, rec, http=False)

    status, exc = _with_watchdog(client, timeout)
    if status != "ok":
        try:
            tr.proc.kill()
        except Exception:  # noqa: BLE001
            pass
    return {"calls": rec.export(), "status": status, "exc": repr(exc) if exc else "", "server_died": []}


def run_pool(cfg: str, worker: Path, program_file: Path, proto, calls, names, xs, timeout: float = 60.0) -> dict:
    """WorkerPool: two consecutive borrows of a subprocess worker (the second reuses it when the first left it clean);
    odd arguments give every borrow its own shared-memory segment (client-advertised, attached by the worker)."""
    from vgi_rpc.pool import WorkerPool
    from vgi_rpc.rpc import StderrMode

    _, knobs = split_cfg(cfg)
    cmd = [sys.executable, str(worker), str(program_file), json.dumps(knobs)]
    recs = [Recorder(), Recorder()]
    pool = WorkerPool(max_idle=2, stderr=StderrMode.DEVNULL, shm_size=(1 << 20) if xs[0] % 2 else None)

    def client() -> dict:
        for rec in recs:
            with pool.connect(proto, cmd, on_log=rec.on_log, ipc_validation=_validation(knobs)) as px:
                run_calls(px, calls, names, xs, rec, http=False)
        m = pool.metrics
        return {"spawns": m.spawns, "reuses": m.reuses}

    status, val = _with_watchdog(client, timeout)
    try:
        pool.close()
    except Exception:  # noqa: BLE001
        pass
    extra = val if status == "ok" else {}
    return {"calls": recs[0].export(), "reuse_calls": recs[1].export(), "status": status,
            "exc": repr(val) if status == "raised" else "", "server_died": [], **extra}


_FETCH: list = []


def _shared_fetch_config():
    """One FetchConfig (event-loop thread + session) per process, created after any fork."""
    from vgi_rpc.external_fetch import FetchConfig

    if not _FETCH or _FETCH[0][0] != os.getpid():
        _FETCH[:] = [(os.getpid(), FetchConfig())]
    return _FETCH[0][1]


class HttpWorld:
    """The HTTP configurations of one program: builds the app(s) per (cap, compression, externalization, knobs)."""

    def __init__(self, proto, impl, methods: list[dict]) -> None:
        self.proto, self.impl, self.methods = proto, impl, methods
        self.tiny: dict[tuple[str, str], int] = {}

    def run(self, cfg: str, calls, names, xs, cap_override: int | None = None) -> dict:
        from vgi_rpc.http import http_connect
        from vgi_rpc.http._testing import make_sync_client

        base, knobs = split_cfg(cfg)
        _, cap, comp, ext = base.split(":")
        if cap == "none":
            max_bytes = None
        elif cap == "large":
            max_bytes = LARGE_CAP
        elif cap.startswith("lm"):
            # packing landmark j (Semantics!Packings): the cap sits exactly at the framed size of the first j steps of
            # the (single) producer call -- "lmJ" ends the /init turn with step j, "lmJ+" squeezes one more step in
            marks = landmarks(calls[0], xs[0])
            j = int(cap[2:].rstrip("+"))
            max_bytes = LARGE_CAP if j > len(marks) else marks[j - 1] + (1 if cap.endswith("+") else 0)
        else:
            # tiny-but-legal: the largest hard-capped response this script produced without a cap (+ slack: sealed
            # state tokens vary by a few bytes between runs, and Arrow pads to 8) -- 1 when nothing is hard-capped
            if (ext, json.dumps(xs)) not in self.tiny and cap_override is None:
                self.run(join_cfg(f"http:none:off:{ext}", {**knobs, "api": "iter", "cside": "both"}), calls, names, xs)   # measuring run
            measured = self.tiny.get((ext, json.dumps(xs)), 0)
            max_bytes = cap_override if cap_override is not None else (measured + TINY_SLACK if measured else 1)
        level = None if comp == "off" else (knobs["level"] if comp == "zstd" else 3)
        srv_level = None if (comp == "zstd" and knobs["cside"] == "client") else level
        cli_level = None if (comp == "zstd" and knobs["cside"] == "server") else level
        nworkers = 2 if knobs["cache"] == "lb" else 1
        key = os.urandom(32)
        stores, inners = [], []
        client_ext = None
        saved = os.environ.get("VGI_HTTP_DISABLE_ZSTD")
        if comp == "gzips":
            os.environ["VGI_HTTP_DISABLE_ZSTD"] = "1"        # the server-side switch: zstd neither produced nor accepted
        try:
            for _ in range(nworkers):
                storage, server_ext, cext = _ext_pair(ext, knobs["extz"])
                client_ext = cext or client_ext
                if storage is not None:
                    stores.append(storage)
                server = RpcServer(self.proto, self.impl, server_id=SERVER_ID, external_location=server_ext,
                                   ipc_validation=_validation(knobs), enable_describe=knobs["describe"])
                # the HTML pages are not part of the RPC surface (and rendering them dominates app construction)
                inners.append(make_sync_client(server, max_response_bytes=max_bytes, compression_level=srv_level, token_key=key,
                                               enable_landing_page=False, enable_describe_page=False, enable_not_found_page=False,
                                               enable_sticky=knobs["sticky"],
                                               call_state_cache_entries=0 if knobs["cache"] == "cold" else 4096))
        finally:
            if comp == "gzips":
                if saved is None:
                    os.environ.pop("VGI_HTTP_DISABLE_ZSTD", None)
                else:
                    os.environ["VGI_HTTP_DISABLE_ZSTD"] = saved
        client = _RecordingClient(inners, accept="gzip" if comp == "gzip" else None)
        client.want_packing = cap.startswith("lm")
        rec = Recorder()
        status, exc = "ok", None
        api = knobs["api"] if cap == "none" else "iter"          # next_with_token needs one batch per response
        try:
            with http_connect(self.proto, client=client, on_log=rec.on_log, external_location=client_ext,
                              compression_level=cli_level, ipc_validation=_validation(knobs)) as px:
                if knobs["sticky"]:
                    with px.with_session_token() as view:
                        run_calls(view, calls, names, xs, rec, http=True, api=api)
                else:
                    run_calls(px, calls, names, xs, rec, http=True, api=api)
        except BaseException as e:  # noqa: BLE001
            if isinstance(e, _Timeout):
                raise
            status, exc = "raised", e
        finally:
            for st in stores:
                _LIVE_STORES.remove(st)
        if cap == "none" and comp != "gzips" and api == "iter":
            self.tiny[(ext, json.dumps(xs))] = max(self.tiny.get((ext, json.dumps(xs)), 0), capped_max(client.sizes, self.methods))
        return {"calls": rec.export(), "status": status, "exc": repr(exc) if exc else "", "server_died": [],
                "cap": max_bytes, "encodings": sorted(client.encodings), "requests": len(client.sizes),
                "externalized": sum(st.n for st in stores), "packing": client.packing}


# ---------------------------------------------------------------------------------------------- one behaviour, many configurations
def worker_init() -> None:
    sys.setswitchinterval(0.0002)      # client and server threads of a socket pair ping-pong: switch promptly
    install_fetch_fake()


def run_behaviour(job: dict) -> dict:
    """job = {calls, xs, cfgs, subdir}: instantiate the program once, run the script over every configuration."""
    calls, xs, cfgs = job["calls"], job["xs"], job["cfgs"]
    methods, names = program_of(calls)
    first = _SID[0] + 1
    proto, impl, _code = build_program(methods)
    hw = HttpWorld(proto, impl, methods)
    out: dict[str, dict] = {}
    try:
        for cfg in cfgs:
            base = cfg.partition("|")[0]
            if base in SOCKETS:
                out[cfg] = run_socket(cfg, proto, impl, calls, names, xs)
                if out[cfg]["status"] == "hung":      # a hang counts only when a second, more patient run confirms it
                    out[cfg] = run_socket(cfg, proto, impl, calls, names, xs, timeout=40.0)
            elif base in ("subprocess", "pool"):
                d = Path(job["subdir"])
                pf = d / f"program_{os.getpid()}_{first}.json"
                pf.write_text(json.dumps(methods))
                fn = run_subprocess if base == "subprocess" else run_pool
                try:
                    out[cfg] = fn(cfg, d / "c01_worker.py", pf, proto, calls, names, xs)
                    if out[cfg]["status"] == "hung":      # interpreter start-up on a busy machine: confirm patiently
                        out[cfg] = fn(cfg, d / "c01_worker.py", pf, proto, calls, names, xs, timeout=240.0)
                finally:
                    pf.unlink(missing_ok=True)
                if base == "pool" and out[cfg]["status"] == "ok":
                    r = out[cfg]
                    out[cfg.replace("pool", "pool-reuse", 1)] = {**r, "calls": r.pop("reuse_calls")}
            else:
                status, val = _with_watchdog(lambda c=cfg: hw.run(c, calls, names, xs), 60.0)
                if status == "hung":          # in-process: only an overloaded machine or a runaway loop; confirm once
                    status, val = _with_watchdog(lambda c=cfg: hw.run(c, calls, names, xs), 180.0)
                out[cfg] = val if status == "ok" else {"calls": [], "status": status, "exc": repr(val), "server_died": []}
    finally:
        for sid in range(first, first + len(methods)):
            REG.pop(sid, None)
    return out


def warm_up() -> None:
    """Import everything the legs need (falcon, http client/server, codecs, aiohttp) before worker processes fork."""
    st = {"pre": ["INFO"], "emit": "meta", "post": [], "end": "finish", "err": ""}
    m = {"kind": "prod", "hdr": "full", "cols": "one", "ilogs": [], "iend": "ok", "ierr": "", "res": "na", "steps": [st]}
    import aiohttp  # noqa: F401
    import tenacity  # noqa: F401

    import vgi_rpc.external_fetch  # noqa: F401
    import vgi_rpc.pool  # noqa: F401

    run_behaviour({"calls": [{"m": m, "ops": ["i"], "args": "xt"}], "xs": [1111], "subdir": "",
                   "cfgs": ["pipe", "http:none:off:off", "http:none:zstd:off|sticky=1", "http:none:gzip:off"]})
