"""C01: table-style TLC wrappers with *parallel* evaluation.

vf.table enumerates cases / judges observations as TLC initial states, which TLC computes and checks on a single
thread.  Here the enumeration computes each case's history once (state variable h) and hands it to every sanity
invariant, and the judged observations are successors of a few block states (TLC expands different states on
different workers).  Same contract as vf.table:
the spec enumerates `Cases`, checks the named sanity invariants on every case, emits `Expected(c)`; and judges
recorded observations with `Conforms(case, obs)`.
"""
from __future__ import annotations

import json

from vf.core import Ctx
from vf.tlc import MachineryError, render_cfg, require_ok, run_tlc, sany

ENUM = """---- MODULE {m}_PEnum ----
EXTENDS {m}, Json
VARIABLES c, h              \\* h = the history the interpreter assigns to case c (computed once per case)
PInit == c \\in Cases /\\ h = Expected(c)
PNext == UNCHANGED <<c, h>>
Emit == PrintT("@@J@@" \\o ToJson([case |-> c, exp |-> h, nsteps |-> [i \\in 1..Len(c.calls) |-> IF Packings(c.calls[i].m) = {{}} THEN 0 ELSE RunSteps(c.calls[i].m)]]))
ASSUME PrintT("@@J@@" \\o ToJson([configspace |-> ConfigSpace]))
{invs}
====
"""

OBS = """---- MODULE {m}_PObs ----
EXTENDS {m}, Json, IOUtils
\\* one record per behaviour: [case |-> c, obs |-> <<o1, o2, ...>>] (the distinct histories recorded for it)
Obs == JsonDeserialize(IOEnv.OBS_FILE)
Blocks == {blocks}
VARIABLES blk, i
BInit == blk \\in 1..Blocks /\\ i = 0
BNext == /\\ i = 0
         /\\ i' \\in {{k \\in 1..Len(Obs) : (k % Blocks) + 1 = blk}}
         /\\ UNCHANGED blk
Judge == i = 0 \\/ LET rec == Obs[i]
                       bad == [k \\in 1..Len(rec.obs) |-> Conforms(rec.case, rec.obs[k])] IN
                   PrintT("@@J@@" \\o ToJson([i |-> i, bad |-> bad]))
====
"""


def enumerate_cases(ctx: Ctx, wd, module: str, *, constants: dict, invariants=(), name: str, timeout: int = 900,
                    emit: bool = True) -> list[dict]:
    invs = "\n".join(f"Inv_{x} == {x}(c, h)" for x in invariants)
    (wd / f"{module}_PEnum.tla").write_text(ENUM.format(m=module, invs=invs))
    cfg = render_cfg(init_next=("PInit", "PNext"), constants=constants,
                     invariants=[f"Inv_{x}" for x in invariants] + (["Emit"] if emit else []))
    r = run_tlc(wd, f"{module}_PEnum", cfg, timeout=timeout, cfg_name=f"{module}_{name}.cfg", workers=4)
    ctx.add_tlc(f"{module}:enumerate[{name}]", r)
    require_ok(r, f"{module} case enumeration / interpreter sanity invariants {list(invariants)} ({name})")
    cases = [j for j in r.json_lines if isinstance(j, dict) and "case" in j]
    space = [j["configspace"] for j in r.json_lines if isinstance(j, dict) and "configspace" in j]
    if not space:
        raise MachineryError(f"{module}: the configuration space was not emitted")
    return cases, space[0]


def judge(ctx: Ctx, wd, module: str, records: list[dict], *, timeout: int = 1200,
          chunk: int = 4000, blocks: int = 24, name: str = "judge") -> dict[tuple[int, int], list[str]]:
    """records = [{"case": c, "obs": [o1, o2, ...]}]: TLC evaluates Conforms(c, o) for every recorded history.
    Returns {(record index, obs index): clause names} for the histories with a non-empty verdict."""
    (wd / f"{module}_PObs.tla").write_text(OBS.format(m=module, blocks=blocks))
    bad: dict[tuple[int, int], list[str]] = {}
    for off in range(0, len(records), chunk):
        part = records[off:off + chunk]
        f = wd / f"obs_{module}_{off}.json"
        f.write_text(json.dumps(part))
        cfg = render_cfg(init_next=("BInit", "BNext"), invariants=["Judge"],
                         constants={"RichSteps": 0, "SmallSteps": 0, "MultiCalls": 1, "LongEmits": 0, "MaxTicks": 1})   # Conforms does not use them
        r = run_tlc(wd, f"{module}_PObs", cfg, timeout=timeout, env={"OBS_FILE": str(f)}, cfg_name=f"{module}_pobs.cfg",
                    workers=12)
        ctx.add_tlc(f"{module}:{name}[{off}:{off + len(part)}]", r)
        require_ok(r, f"{module} observation judging")
        seen = set()
        for j in r.json_lines:
            seen.add(j["i"])
            verdicts = j["bad"]
            if len(verdicts) != len(part[j["i"] - 1]["obs"]):
                raise MachineryError(f"{module}: record {j['i']} judged {len(verdicts)} of {len(part[j['i'] - 1]['obs'])} histories")
            for k, v in enumerate(verdicts):
                if v:
                    bad[(off + j["i"] - 1, k)] = sorted(v)
                else:
                    ctx.traces_validated += 1
        if len(seen) != len(part):
            raise MachineryError(f"{module}: judged {len(seen)} of {len(part)} records")
        f.unlink()
    return bad
