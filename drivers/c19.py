"""C19 -- response content-encoding negotiation.  Spec: spec/httpgate/Negotiate.tla."""
import logging
import os
import warnings

from vf.core import Ctx
from vf.tlc import MachineryError

from drivers import _httpgate_util as U

META = {
    "engine": "httpgate",
    "text": "TLC enumerates every pair of ordered token lists over {zstd,gzip,identity,unknown}, duplicates included (quick: "
            "Accept-Encoding up to length 3 x VGI up to 2, plus VGI of length 3 x Accept-Encoding up to 1, 8,420 cases; thorough: Accept-Encoding up to length 4 x VGI up to 3, plus VGI of "
            "length 4 x Accept-Encoding up to 1, 121,060 cases) for Accept-Encoding and X-VGI-Accept-Encoding x every server encode set, proves the "
            "declarative rule equal to its operational form and checks the table-sanity invariants on every case; "
            "each case is rendered into real header strings (case variants, q-parameters, blanks, absent vs empty "
            "header) and sent to real apps built by make_wsgi_app, on a unary call and, in rotation, on a producer continuation "
            "(pre-compressed path), a tiny unary result, producer / exchange init, an exchange turn, an RPC error, a 404 "
            "and a 400 (all kinds for the shortest cases), plus the requests issued by the repository's own client; TLC judges every observation with Negotiate!Conforms.",
    "note": "Trusted: Negotiate.tla's reading of the statement (preference order = VGI list then generic list; a coding "
            "offered on both headers may be announced on either); the rendering of abstract tokens into header text; "
            "q-parameters are rendered non-increasing along the list so list order and q order agree; the {zstd}-only "
            "server set is obtained by shimming available_encodings in the factory namespace.",
}

REPR = {
    "z": ["zstd", "ZSTD", "Zstd", "zstd"],
    "g": ["gzip", "GZIP", "GZip", "gzip"],
    "i": ["identity", "IDENTITY", "Identity", "identity"],
    "u": ["br", "deflate", "compress", "x-snappy", "lz4", "zst", "gzipx", "x-gzip2"],
}
SEPS = [", ", ",", " , ", ",  ", ", ,", ",\t"]


def render(lst: list, rng, plain: bool = False):
    """abstract list -> header text (None = header absent)."""
    if not lst:
        return None if (plain or rng.random() < 0.5) else rng.choice(["", " ", ","])
    if plain:
        return ", ".join(REPR[t][0] for t in lst)
    use_q = rng.random() < 0.4
    q = 1.0
    parts = []
    for t in lst:
        s = rng.choice(REPR[t])
        if use_q:
            s += rng.choice([";q=%.1f", "; q=%.1f", " ;q=%.2f"]) % q
            q = max(0.1, q - rng.choice([0.0, 0.1, 0.2]))
        if rng.random() < 0.15:
            s = " " + s + " "
        parts.append(s)
    sep = rng.choice(SEPS)
    return sep.join(parts)


def build_app(server, sset: list):
    from vgi_rpc.http.server import _factory, make_wsgi_app
    from vgi_rpc._codec import Encoding

    key = b"k" * 32
    if sset == []:
        app = make_wsgi_app(server, token_key=key, compression_level=None)
    elif sset == ["z", "g"]:
        app = make_wsgi_app(server, token_key=key)
    elif sset == ["g"]:
        old = os.environ.get("VGI_HTTP_DISABLE_ZSTD")
        os.environ["VGI_HTTP_DISABLE_ZSTD"] = "1"
        try:
            app = make_wsgi_app(server, token_key=key)
        finally:
            if old is None:
                del os.environ["VGI_HTTP_DISABLE_ZSTD"]
            else:
                os.environ["VGI_HTTP_DISABLE_ZSTD"] = old
    elif sset == ["z"]:
        real = _factory.available_encodings
        _factory.available_encodings = lambda: (Encoding.ZSTD,)
        try:
            app = make_wsgi_app(server, token_key=key)
        finally:
            _factory.available_encodings = real
    else:
        raise MachineryError(f"unknown server set {sset}")
    st, hd, _ = U.wsgi_call(app, "OPTIONS", "/health")
    adv = [x.strip() for x in (U.hget(hd, "VGI-Supported-Encodings") or "").split(",") if x.strip()]
    want = [{"z": "zstd", "g": "gzip"}[t] for t in sset]
    if adv != want:
        raise MachineryError(f"harness could not build server set {sset}: app advertises {adv}")
    return app


TOK = {"zstd": "z", "gzip": "g"}


TOKEN_KEYS = (b"stream_state", b"call_state")


def canon(body: bytes):
    """decoded IPC content with the per-response state tokens left out (they are re-sealed on every response)"""
    out = []
    for st in U.world.read_streams(body):
        if "error" in st or not st.get("complete"):
            return ("undecodable", body)
        out.append((str(st["schema"]), [(b.to_pydict(), sorted((k, v) for k, v in md.items()
                                                                if not any(t in k for t in TOKEN_KEYS)))
                                         for b, md in st["batches"]]))
    return out


class Ref:
    """the response to the same request sent without accept headers"""

    def __init__(self, app, url, body, base):
        st1, hd1, b1 = U.wsgi_call(app, "POST", url, body, base)
        st2, _, b2 = U.wsgi_call(app, "POST", url, body, base)
        if st1 != st2 or U.hall(hd1, "Content-Encoding") or U.hall(hd1, "X-VGI-Content-Encoding"):
            raise MachineryError(f"reference response for {url} is not plain / not stable")
        self.url, self.body, self.status = url, body, st1
        self.exact = b1 if b1 == b2 else None          # byte-deterministic responses are compared byte for byte
        self.canon = canon(b1)
        if self.exact is None and canon(b2) != self.canon:
            raise MachineryError(f"reference response for {url} differs beyond its state tokens")

    def same(self, plain: bytes) -> bool:
        return plain == self.exact if self.exact is not None else canon(plain) == self.canon


def observe(path: str, st: int, hd: list, body: bytes, ref: Ref) -> dict:
    std = [x.strip().lower() for x in U.hall(hd, "Content-Encoding")]
    vgi = [x.strip().lower() for x in U.hall(hd, "X-VGI-Content-Encoding")]
    hdr = "both" if (std and vgi) else "std" if std else "vgi" if vgi else "none"
    named = set(std + vgi)
    if not named:
        coding, plain = "none", body
    elif len(named) == 1 and next(iter(named)) in TOK:
        name = next(iter(named))
        coding, plain = TOK[name], U.decode_coding(name, body)
    else:
        coding, plain = "other", None
    return {"path": path, "status": st, "refstatus": ref.status, "coding": coding, "hdr": hdr,
            "decodes": plain is not None, "same": plain is not None and ref.same(plain)}


EXTRA_PATHS = ["producer", "unary_small", "init", "exch_init", "exchange", "rpc_error", "not_found", "bad_request"]


def client_leg(ctx, apps, server, obs):
    """the repository's own client (http_connect over the in-process test client): what it offers, what the server
    announces, and whether the values it hands back are the reference values"""
    import pyarrow as pa

    from vgi_rpc.http import http_connect
    from vgi_rpc.http._testing import _SyncTestClient
    from vgi_rpc.rpc import AnnotatedBatch

    seen: list = []

    class Rec(_SyncTestClient):
        __slots__ = ()

        def post(self, url, *, content, headers):
            r = super().post(url, content=content, headers=headers)
            seen.append((url, headers.get("Accept-Encoding"), headers.get("X-VGI-Accept-Encoding"), r))
            return r

    data = b"client leg " * 300
    for k, app in apps.items():
        for level in (1, None):
            del seen[:]
            ok = False
            try:
                with http_connect(U.Svc, client=Rec(app), compression_level=level) as p:
                    r1 = p.echo(data=data)
                    rows = []
                    for b in p.prod():
                        rows += b.batch.to_pydict()["v"]
                    with p.exch() as s:
                        ex = s.exchange(AnnotatedBatch(batch=pa.RecordBatch.from_pydict({"a": [1, 2, 3]}, schema=U.IN)))
                        exv = ex.batch.to_pydict()
                ok = r1 == data and rows == [7] + list(range(U.BIG_ROWS)) and exv == {"v": [4]}
            except Exception as exc:  # noqa: BLE001 -- a client that cannot read the response is an observation
                ctx.extra.setdefault("client_leg_errors", []).append(repr(exc)[:200])
            for url, a_txt, v_txt, r in seen:
                tok = lambda txt: [TOK.get(t.strip().lower().split(";")[0], "i" if t.strip().lower() == "identity" else "u")
                                   for t in (txt or "").split(",") if t.strip()]
                case = {"a": tok(a_txt), "v": tok(v_txt), "s": list(k)}
                if len(case["a"]) > 3 or len(case["v"]) > 2:
                    continue                       # outside the enumerated space of the quick tier: not judged
                if not (r.headers.get("content-type") or "").startswith(U.ARROW_CT):
                    continue                       # e.g. the 415 that makes the client fall back to another request codec
                hd = list(r.headers.items())
                std = [x.strip().lower() for x in U.hall(hd, "Content-Encoding")]
                vgi = [x.strip().lower() for x in U.hall(hd, "X-VGI-Content-Encoding")]
                named = set(std + vgi)
                run = {"path": "client", "status": r.status_code, "refstatus": r.status_code,
                       "coding": "none" if not named else TOK.get(next(iter(named)), "other") if len(named) == 1 else "other",
                       "hdr": "both" if (std and vgi) else "std" if std else "vgi" if vgi else "none",
                       "decodes": ok, "same": ok}
                obs.append({"case": case, "runs": [run], "_h": [a_txt, v_txt], "_e": {"coding": "?", "hdr": ["?"]}})
                ctx.case([a_txt, v_txt, list(k), "client", url, level])


def run(ctx: Ctx) -> None:
    warnings.filterwarnings("ignore")
    logging.disable(logging.CRITICAL)
    quick = ctx.quick
    invs = ["Agree", "OnlyOfferedAndProducible", "NoOverlapNoCoding", "VgiPrecedence", "IdentityFirst",
            "UnknownAndDuplicatesIrrelevant", "HeaderWellFormed"]
    dev = os.environ.get("C19_MAXLEN")          # development aid only (mutant runs); registered commands never set it
    if dev:
        plans = [({"MaxA": int(dev), "MaxV": int(dev), "MinV": 0}, invs)]
    elif quick:
        # Accept-Encoding up to 3 x VGI up to 2 (7,140 cases) plus VGI of length 3 x Accept-Encoding up to 1 (1,280)
        plans = [({"MaxA": 3, "MaxV": 2, "MinV": 0}, invs), ({"MaxA": 1, "MaxV": 3, "MinV": 3}, invs)]
    else:
        # Accept-Encoding lists up to length 4 x VGI lists up to length 3 (115,940 cases), plus every VGI list of
        # length exactly 4 against the Accept-Encoding lists of length <= 1 (5,120 cases).  The complete 4x4 product
        # (465k cases) costs TLC about 1.5 ms per case for enumeration + judging and does not fit the thorough budget
        # on the shared box.  The full invariant set is checked on the 3x3 space, the big enumerations carry the
        # three cheapest invariants.
        cheap = ["Agree", "OnlyOfferedAndProducible", "HeaderWellFormed"]
        U.enumerate_split(ctx, "httpgate", "Negotiate", constants={"MaxA": 3, "MaxV": 3, "MinV": 0}, invariants=invs,
                          emit=False, name="Negotiate:table-sanity-3x3")
        plans = [({"MaxA": 4, "MaxV": 3, "MinV": 0}, cheap), ({"MaxA": 1, "MaxV": 4, "MinV": 4}, cheap)]
    consts = plans[0][0]
    cases = []
    for k, (pc, pinv) in enumerate(plans):
        cases += U.enumerate_split(ctx, "httpgate", "Negotiate", constants=pc, invariants=pinv,
                                   name=f"Negotiate:enumerate[A<={pc['MaxA']},V={pc['MinV']}..{pc['MaxV']}]")
    ctx.exhaustive = True
    ctx.rule = ("case = (Accept-Encoding list, X-VGI-Accept-Encoding list, server encode set), all enumerated by TLC "
                "from Negotiate!Cases; each is executed on the unary response and on one further kind of response in rotation "
                "(producer continuation = pre-compressed path, tiny unary result, producer init, exchange init, exchange "
                "turn, RPC error, 404, 400; all kinds for the shortest cases), plus the Arrow responses to the requests the "
                "repository's own client issues through http_connect; non-trivial = distinct (rendered header pair, server set, path) executed on "
                "the real app. Rule used: preference order = VGI list then generic list; identity first => no coding; "
                "a coding offered on both headers may be announced on either header (statement gives no choice; the "
                "repository's conformance suite uses Content-Encoding), announced on exactly one.")
    ctx.assume("abstract tokens are rendered by 4-8 spellings each (case variants; 'u' = tokens that are not a codec)",
               "q-parameters, when rendered, are non-increasing along the list (q order = list order); q=0 is not used",
               "the {zstd}-only encode set is built by shimming available_encodings in the factory's namespace",
               "requests are raw in-process WSGI calls")

    server, impl = U.build_server()
    apps = {}
    refs = {}
    base = {"Content-Type": U.ARROW_CT, "X-Request-ID": "c19"}
    for sset in ([], ["z"], ["g"], ["z", "g"]):
        app = build_app(server, sset)
        k = tuple(sset)
        apps[k] = app
        st1, _, init = U.wsgi_call(app, "POST", "/prod/init", U.unary_body(server, "prod", {}), base)
        st2, _, einit = U.wsgi_call(app, "POST", "/exch/init", U.unary_body(server, "exch", {}), base)
        if st1 != 200 or st2 != 200:
            raise MachineryError(f"reference stream inits failed: {st1} {st2}")
        r = {"unary": Ref(app, "/echo", U.echo_body(server, 2000, fill=b"negotiation "), base),
             "unary_small": Ref(app, "/echo", U.echo_body(server, 3), base),
             "producer": Ref(app, "/prod/exchange", U.tick_body(U.tokens_of(init)), base),
             "init": Ref(app, "/prod/init", U.unary_body(server, "prod", {}), base),
             "exch_init": Ref(app, "/exch/init", U.unary_body(server, "exch", {}), base),
             "exchange": Ref(app, "/exch/exchange", U.exchange_body(U.tokens_of(einit), rows=range(50)), base),
             "rpc_error": Ref(app, "/fail", U.unary_body(server, "fail", {"x": 1}), base),
             "not_found": Ref(app, "/no_such_method", U.echo_body(server, 10), base),
             "bad_request": Ref(app, "/echo", b"this is not an arrow stream", base)}
        want = {"unary": 200, "unary_small": 200, "producer": 200, "init": 200, "exch_init": 200, "exchange": 200,
                "rpc_error": 200, "not_found": 404, "bad_request": 400}
        for name, ref in r.items():
            if ref.status != want[name]:
                raise MachineryError(f"reference request {name} answered {ref.status}")
        if r["producer"].exact is None:
            raise MachineryError("producer continuation reference is not byte-deterministic")
        refs[k] = r

    obs: list[dict] = []
    nviol = 0

    def flush():
        nonlocal obs, nviol
        if not obs:
            return
        judged = [{"case": o["case"], "obs": {"runs": o["runs"]}} for o in obs]
        bad = U.judge_split(ctx, "httpgate", "Negotiate", judged, constants=consts)
        for idx, clauses in bad:
            o = obs[idx]
            for full in clauses:
                cl, _, path = full.partition("/")
                run = next(r for r in o["runs"] if r["path"] == path)
                nviol += 1
                ctx.violation(cl, {"path": path, "server_set": "+".join(o["case"]["s"]) or "none",
                                   "expected_coding": o["_e"]["coding"], "expected_hdr": "|".join(o["_e"]["hdr"]),
                                   "observed_coding": run["coding"], "observed_hdr": run["hdr"]},
                              {"case": o["case"], "headers_sent": o["_h"], "observed": run})
        obs = []

    for ci, cj in enumerate(cases):
        case = cj["case"]
        k = tuple(case["s"])
        app = apps[k]
        r = refs[k]
        short = len(case["a"]) + len(case["v"]) <= 2
        renders = [(render(case["a"], ctx.rng, plain=True), render(case["v"], ctx.rng, plain=True))] if short else []
        renders.append((render(case["a"], ctx.rng), render(case["v"], ctx.rng)))
        for a_txt, v_txt in renders:
            h = {**base, "Accept-Encoding": a_txt, "X-VGI-Accept-Encoding": v_txt}
            # every case: the unary response and one further kind of response in rotation; short cases: all kinds
            paths = ["unary"] + (EXTRA_PATHS if short else [EXTRA_PATHS[ci % len(EXTRA_PATHS)]])
            runs = []
            for path in paths:
                ref = r[path]
                hh, wire = h, ref.body
                if path == "unary" and ctx.rng.random() < 0.15:
                    # request coding and response coding are independent: sometimes the request itself is compressed
                    # (with a coding this server decodes: a server that only produces gzip was built without zstd)
                    tok = ctx.rng.choice([{"z": "zstd", "g": "gzip"}[t] for t in (case["s"] or ["z", "g"])])
                    hh = {**h, "Content-Encoding": tok}
                    wire = U.zstd_frame(ref.body) if tok == "zstd" else U.gzip_member(ref.body)
                st, hd, body = U.wsgi_call(app, "POST", ref.url, wire, hh)
                runs.append(observe(path, st, hd, body, ref))
                ctx.case([a_txt, v_txt, case["s"], path])
            obs.append({"case": case, "runs": runs, "_h": [a_txt, v_txt], "_e": cj["exp"]})
        if len(obs) >= 120000:
            flush()
    client_leg(ctx, apps, server, obs)
    for o in obs[:: max(1, len(obs) // 5)][:5]:
        ctx.sample({"abstract": o["case"], "headers_sent": {"Accept-Encoding": o["_h"][0],
                                                            "X-VGI-Accept-Encoding": o["_h"][1]},
                    "observed": o["runs"]})
    flush()
    ctx.extra["abstract_cases"] = len(cases)

