---- MODULE WireConn ----
EXTENDS Naturals, Sequences, FiniteSets, TLC
CONSTANTS MaxCalls, MaxTicks, NBatches,
          FixInitErrDrain   \* intended design: after a header-less init error the server consumes the client's input stream
\* methods: kind, header?, init raises?
Methods == { [n |-> "u",   k |-> "unary",  h |-> FALSE, bad |-> FALSE],
             [n |-> "ue",  k |-> "unary",  h |-> FALSE, bad |-> TRUE ],
             [n |-> "p",   k |-> "stream", h |-> FALSE, bad |-> FALSE],
             [n |-> "ph",  k |-> "stream", h |-> TRUE,  bad |-> FALSE],
             [n |-> "pi",  k |-> "stream", h |-> FALSE, bad |-> TRUE ],
             [n |-> "pih", k |-> "stream", h |-> TRUE,  bad |-> TRUE ],
             [n |-> "zz",  k |-> "unknown", h |-> FALSE, bad |-> FALSE] }
VARIABLES c2s, s2c, srv, cli, calls, badResp, broken
vars == <<c2s, s2c, srv, cli, calls, badResp, broken>>

Push(q, x) == Append(q, x)
\* complete IPC stream items carry the id of the call they answer (ghost)
Resp(kind, cid) == [t |-> "stream", kind |-> kind, cid |-> cid]

Init == /\ c2s = <<>> /\ s2c = <<>>
        /\ srv = [pc |-> "idle", m |-> "u", cid |-> 0, emitted |-> 0]
        /\ cli = [pc |-> "idle", m |-> "u", cid |-> 0, inOpen |-> FALSE, outOpen |-> FALSE, closed |-> FALSE, ticks |-> 0, sess |-> FALSE]
        /\ calls = 0 /\ badResp = FALSE /\ broken = FALSE

M(name) == CHOOSE m \in Methods : m.n = name

\* ------------------------------------------------------------ client
CStart(m) == /\ cli.pc = "idle" /\ calls < MaxCalls /\ ~broken
             /\ calls' = calls + 1
             /\ c2s' = Push(c2s, [t |-> "req", m |-> m.n, cid |-> calls + 1])
             /\ cli' = [cli EXCEPT !.pc = IF m.k = "stream" THEN (IF m.h THEN "rd_hdr" ELSE "sess") ELSE "rd_unary",
                                   !.m = m.n, !.cid = calls + 1, !.inOpen = FALSE, !.outOpen = FALSE,
                                   !.closed = FALSE, !.ticks = 0, !.sess = (m.k = "stream" /\ ~m.h)]
             /\ UNCHANGED <<s2c, srv, badResp, broken>>

\* reading where a fresh IPC stream must begin: anything but a stream start is garbage
CReadUnary == /\ cli.pc = "rd_unary" /\ Len(s2c) > 0
              /\ LET x == Head(s2c) IN
                 IF x.t = "stream"
                 THEN /\ badResp' = (badResp \/ x.cid # cli.cid)
                      /\ cli' = [cli EXCEPT !.pc = "idle"] /\ UNCHANGED broken
                 ELSE /\ broken' = TRUE /\ cli' = [cli EXCEPT !.pc = "idle"] /\ UNCHANGED badResp
              /\ s2c' = Tail(s2c) /\ UNCHANGED <<c2s, srv, calls>>

CReadHeader == /\ cli.pc = "rd_hdr" /\ Len(s2c) > 0
               /\ LET x == Head(s2c) IN
                  IF x.t = "stream"
                  THEN /\ badResp' = (badResp \/ x.cid # cli.cid)
                       /\ cli' = IF x.kind = "header" THEN [cli EXCEPT !.pc = "sess", !.sess = TRUE]
                                                       ELSE [cli EXCEPT !.pc = "idle"]   \* error instead of header
                       /\ UNCHANGED broken
                  ELSE /\ broken' = TRUE /\ cli' = [cli EXCEPT !.pc = "idle"] /\ UNCHANGED badResp
               /\ s2c' = Tail(s2c) /\ UNCHANGED <<c2s, srv, calls>>

\* tick: write (open input stream on first use), then wait for the answer
CTick == /\ cli.pc = "sess" /\ ~cli.closed /\ cli.ticks < MaxTicks
         /\ c2s' = (IF cli.inOpen THEN c2s ELSE Push(c2s, [t |-> "ischema"])) \o <<[t |-> "tick"]>>
         /\ cli' = [cli EXCEPT !.inOpen = TRUE, !.pc = "rd_out", !.ticks = @ + 1]
         /\ UNCHANGED <<s2c, srv, calls, badResp, broken>>

\* close(): EOS on input (or an empty input stream), then drain output
CCloseWrite == /\ cli.pc \in {"sess", "closing", "closing_eos"} /\ ~cli.closed
               /\ c2s' = (IF cli.inOpen THEN c2s ELSE Push(c2s, [t |-> "ischema"])) \o <<[t |-> "ieos"]>>
               /\ cli' = [cli EXCEPT !.closed = TRUE, !.inOpen = TRUE, !.pc = IF cli.pc = "closing_eos" THEN "idle" ELSE "drain", !.sess = (cli.pc # "closing_eos")]
               /\ UNCHANGED <<s2c, srv, calls, badResp, broken>>

CAbandon == /\ cli.pc = "sess" /\ ~cli.closed
            /\ cli' = [cli EXCEPT !.pc = "idle", !.sess = FALSE]
            /\ UNCHANGED <<c2s, s2c, srv, calls, badResp, broken>>

\* reading the output stream (tick answer or drain)
CReadOut ==
  /\ cli.pc \in {"rd_out", "drain"} /\ Len(s2c) > 0
  /\ LET x == Head(s2c) IN
     /\ s2c' = Tail(s2c)
     /\ IF ~cli.outOpen
        THEN \* must be the start of an IPC stream
             IF x.t = "oschema" THEN cli' = [cli EXCEPT !.outOpen = TRUE] /\ UNCHANGED <<badResp, broken>>
             ELSE IF x.t = "stream"
             THEN \* a complete (error) stream where the output stream was expected: error batch then its EOS
                  /\ badResp' = (badResp \/ x.cid # cli.cid)
                  /\ cli' = IF cli.pc = "drain" THEN [cli EXCEPT !.pc = "idle", !.sess = FALSE]
                            ELSE [cli EXCEPT !.pc = "closing_eos", !.outOpen = TRUE, !.sess = TRUE]
                  /\ UNCHANGED broken
             ELSE broken' = TRUE /\ cli' = [cli EXCEPT !.pc = "idle", !.sess = FALSE] /\ UNCHANGED badResp
        ELSE CASE x.t = "data"  -> cli' = [cli EXCEPT !.pc = IF cli.pc = "drain" THEN "drain" ELSE "sess"] /\ UNCHANGED <<badResp, broken>>
               [] x.t = "oerr"  -> cli' = [cli EXCEPT !.pc = IF cli.pc = "drain" THEN "drain" ELSE "closing"] /\ UNCHANGED <<badResp, broken>>
               [] x.t = "oeos"  -> cli' = (IF cli.pc = "drain" THEN [cli EXCEPT !.pc = "idle", !.sess = FALSE]
                                                                ELSE [cli EXCEPT !.pc = "closing_eos"]) /\ UNCHANGED <<badResp, broken>>
               [] OTHER -> broken' = TRUE /\ cli' = [cli EXCEPT !.pc = "idle", !.sess = FALSE] /\ UNCHANGED badResp
  /\ UNCHANGED <<c2s, srv, calls>>

\* after an error stream consumed in place of the output stream, close() drains a reader already at EOS
CClosingDone == /\ cli.pc = "closing" /\ cli.closed
                /\ cli' = [cli EXCEPT !.pc = "idle", !.sess = FALSE]
                /\ UNCHANGED <<c2s, s2c, srv, calls, badResp, broken>>

\* ------------------------------------------------------------ server
SReadRequest ==
  /\ srv.pc = "idle" /\ Len(c2s) > 0
  /\ LET x == Head(c2s) IN
     IF x.t = "req" THEN
        LET m == M(x.m) IN
        /\ c2s' = Tail(c2s)
        /\ IF m.k = "unknown" THEN s2c' = Push(s2c, Resp("error", x.cid)) /\ UNCHANGED srv
           ELSE IF m.k = "unary" THEN s2c' = Push(s2c, Resp(IF m.bad THEN "error" ELSE "result", x.cid)) /\ UNCHANGED srv
           ELSE IF m.bad THEN /\ s2c' = Push(s2c, Resp("error", x.cid))
                              /\ srv' = IF FixInitErrDrain /\ ~m.h THEN [srv EXCEPT !.pc = "skip_in", !.cid = x.cid] ELSE srv
           ELSE /\ s2c' = IF m.h THEN Push(s2c, Resp("header", x.cid)) ELSE s2c
                /\ srv' = [srv EXCEPT !.pc = "open_in", !.m = m.n, !.cid = x.cid, !.emitted = 0]
     ELSE IF x.t = "ischema" THEN
        \* _read_request opened a stray input stream as if it were a request
        /\ c2s' = Tail(c2s) /\ srv' = [srv EXCEPT !.pc = "stray", !.cid = 0] /\ UNCHANGED s2c
     ELSE /\ c2s' = Tail(c2s) /\ srv' = [srv EXCEPT !.pc = "dead"] /\ UNCHANGED s2c   \* not an IPC stream start: ArrowInvalid ends the loop
  /\ UNCHANGED <<cli, calls, badResp, broken>>

\* stray stream: read first batch + drain to EOS, then answer "missing vgi_rpc.method" (answers no call: cid 0)
SStray == /\ srv.pc = "stray" /\ Len(c2s) > 0
          /\ c2s' = Tail(c2s)
          /\ IF Head(c2s).t = "ieos" THEN s2c' = Push(s2c, Resp("error", 0)) /\ srv' = [srv EXCEPT !.pc = "idle"]
                                     ELSE UNCHANGED <<s2c, srv>>
          /\ UNCHANGED <<cli, calls, badResp, broken>>

\* intended design only: swallow the input stream the client will still send
SSkipIn == /\ srv.pc = "skip_in" /\ Len(c2s) > 0
           /\ c2s' = Tail(c2s)
           /\ srv' = IF Head(c2s).t = "ieos" THEN [srv EXCEPT !.pc = "idle"] ELSE srv
           /\ UNCHANGED <<s2c, cli, calls, badResp, broken>>

SOpenIn == /\ srv.pc = "open_in" /\ Len(c2s) > 0 /\ Head(c2s).t = "ischema"
           /\ c2s' = Tail(c2s) /\ s2c' = Push(s2c, [t |-> "oschema"])
           /\ srv' = [srv EXCEPT !.pc = "loop"]
           /\ UNCHANGED <<cli, calls, badResp, broken>>

SLoop == /\ srv.pc = "loop" /\ Len(c2s) > 0
         /\ LET x == Head(c2s) IN
            /\ c2s' = Tail(c2s)
            /\ IF x.t = "tick"
               THEN IF srv.emitted < NBatches
                    THEN s2c' = Push(s2c, [t |-> "data"]) /\ srv' = [srv EXCEPT !.emitted = @ + 1]
                    ELSE s2c' = Push(s2c, [t |-> "oeos"]) /\ srv' = [srv EXCEPT !.pc = "drain_in"]      \* finish()
               ELSE IF x.t = "ieos" THEN s2c' = Push(s2c, [t |-> "oeos"]) /\ srv' = [srv EXCEPT !.pc = "idle"]
               ELSE s2c' = s2c /\ srv' = [srv EXCEPT !.pc = "dead"]
         /\ UNCHANGED <<cli, calls, badResp, broken>>

SDrainIn == /\ srv.pc = "drain_in" /\ Len(c2s) > 0
            /\ c2s' = Tail(c2s)
            /\ srv' = IF Head(c2s).t = "ieos" THEN [srv EXCEPT !.pc = "idle"] ELSE srv
            /\ UNCHANGED <<s2c, cli, calls, badResp, broken>>

Done == /\ cli.pc = "idle" /\ (calls = MaxCalls \/ broken) /\ UNCHANGED vars

Next == \/ \E m \in Methods : CStart(m)
        \/ CReadUnary \/ CReadHeader \/ CTick \/ CCloseWrite \/ CReadOut \/ CClosingDone
        \/ SReadRequest \/ SStray \/ SSkipIn \/ SOpenIn \/ SLoop \/ SDrainIn
        \/ Done
Spec == Init /\ [][Next]_vars

OwnResponse == ~badResp
NotBroken   == ~broken
\* message boundary: when the client is idle (no open session) and the server is waiting for a request, the wire is empty
Boundary == (cli.pc = "idle" /\ ~cli.sess /\ srv.pc = "idle" /\ c2s = <<>>) => s2c = <<>>
====
